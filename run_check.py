#!/venv/bin/python
"""Runner:  run_check.py <Cnn> [--tier quick|thorough] [--replay file] [--jobs N] [--only shardname]

exit 0  property held on everything explored (known findings are printed, not alarms)
exit 1  + line "VIOLATION property=<id> replay=<path>"  for every violation not listed as a
        known finding in /verif/known_findings.json
Evidence is rewritten on every run: /verif/evidence/<id>.json
"""
import argparse
import importlib
import json
import os
import sys
import time
import traceback
from concurrent.futures import TimeoutError  # noqa: A004

HERE = os.path.dirname(os.path.abspath(__file__))
sys.path.insert(0, HERE)
from mc import env  # noqa: E402


def _run_shard(args):
    modname, shard, tier, seed = args
    env.worker_init()
    from mc import linecov
    linecov.start(env.REPO)
    mod = importlib.import_module(modname)
    # numba threads: 1 unless the property is about thread counts (must be set before numba is imported,
    # which happens lazily when the shard first imports tangermeme)
    os.environ["NUMBA_NUM_THREADS"] = str(shard.get("numba_threads", getattr(mod, "NUMBA_THREADS", 1)))
    try:
        r = mod.run_shard(shard, tier, seed)
        r["lines"] = linecov.collect()
        return r
    except Exception:
        # a crash of the harness itself is reported as such (never as silence)
        return dict(shard=str(shard.get("name")), evaluations=0, nontrivial=0, samples=[],
                    violations=[], n_violations=0, viol_sigs={}, counters={}, outcomes=[],
                    digest="crash", notes=[], capped=False, wall_s=0.0,
                    crash=traceback.format_exc())


def main():
    ap = argparse.ArgumentParser()
    ap.add_argument("pid")
    ap.add_argument("--tier", default=os.environ.get("VERIF_TIER", "quick"))
    ap.add_argument("--replay")
    ap.add_argument("--jobs", type=int, default=int(os.environ.get("VERIF_JOBS", "16")))
    ap.add_argument("--only")
    ap.add_argument("--inproc", action="store_true")
    a = ap.parse_args()
    pid = a.pid.upper()
    tier = a.tier if a.tier in ("quick", "thorough") else "quick"
    try:
        seed = int(os.environ.get("VERIF_SEED", "0"))
    except ValueError:
        seed = 0
    envinfo = env.setup()
    modname = "mc.props." + pid.lower()
    t0 = time.time()

    if a.replay:
        env.worker_init()
        mod = importlib.import_module(modname)
        with open(a.replay) as fh:
            v = json.load(fh)
        ok, text = mod.replay(v)
        print(text)
        print("REPLAY", "passes (no violation reproduced)" if ok else "reproduces the violation")
        sys.exit(0 if ok else 1)

    from mc import report
    mod_shards = None
    # shards() must not import torch-heavy things at module import if avoidable; import here
    env.worker_init()
    mod = importlib.import_module(modname)
    shards = mod.shards(tier, seed)
    if a.only:
        shards = [s for s in shards if a.only in s["name"]]
    jobs = max(1, min(a.jobs, len(shards)))
    results = []
    if a.inproc or jobs == 1 and len(shards) == 1:
        for s in shards:
            results.append(_run_shard((modname, s, tier, seed)))
    else:
        import multiprocessing as mp
        from concurrent.futures import ProcessPoolExecutor, ThreadPoolExecutor
        ctx = mp.get_context("spawn")
        # one fresh process per shard, each in a pool of its own: NUMBA_NUM_THREADS is fixed once numba has launched its threads, no
        # state (numba thread pools, caches inside the library under test) may leak from one shard into another, and a worker that
        # dies inside native code (segfault / abort) takes only its own shard with it
        # horizon: a shard that does not finish is reported as such (a change that makes the code under test loop forever must
        # not hang the check); quick shards take well under 2 minutes, thorough shards well under 30
        limit = float(os.environ.get("VERIF_SHARD_TIMEOUT", "900" if tier == "quick" else "7200"))
        deadline = time.time() + limit

        def crashed(sh, why, capped):
            return dict(shard=str(sh.get("name")), evaluations=0, nontrivial=0, samples=[], violations=[], n_violations=0,
                        viol_sigs={}, counters={}, outcomes=[], digest="crash", notes=[], capped=capped, wall_s=limit if capped else 0.0, crash=why)

        def isolated(sh):
            ex = ProcessPoolExecutor(max_workers=1, mp_context=ctx)
            try:
                fut = ex.submit(_run_shard, (modname, sh, tier, seed))
                try:
                    return fut.result(timeout=max(1.0, deadline - time.time()))
                except TimeoutError:
                    for pr in list(getattr(ex, "_processes", {}).values()):
                        try:
                            pr.kill()
                        except Exception:  # noqa: BLE001
                            pass
                    return crashed(sh, "shard did not finish within %.0f s (non-termination or far slower than on the unchanged tree)" % limit, True)
                except Exception as e:  # noqa: BLE001 - the worker process died (segfault / abort inside native code)
                    return crashed(sh, "worker process died while running this shard: %s: %s" % (type(e).__name__, e), False)
            finally:
                ex.shutdown(wait=False, cancel_futures=True)

        with ThreadPoolExecutor(max_workers=jobs) as tp:
            # heavy shards first
            order = sorted(range(len(shards)), key=lambda i: -shards[i].get("weight", 1))
            futs = {i: tp.submit(isolated, shards[i]) for i in order}
            # fresh-process determinism replay: the lightest shard is executed a second time in another fresh process
            i0 = min(range(len(shards)), key=lambda i: shards[i].get("weight", 1))
            fut2 = tp.submit(isolated, shards[i0])
            results = [futs[i].result() for i in range(len(shards))]
            r2 = fut2.result()
    crashes = [r for r in results if r.get("crash")]
    det = None
    if shards and not crashes and not (a.inproc or jobs == 1 and len(shards) == 1):
        det = (r2.get("digest") == results[i0].get("digest"))

    m = report.merge(results)
    findings = report.load_findings()
    open_sigs = {f["sig"]: f for f in findings if f.get("property") == pid and f.get("status") == "open"}
    known_hit = {}
    real = []
    for v in m["violations"]:
        if v["sig"] in open_sigs:
            known_hit.setdefault(v["sig"], v)
        else:
            real.append(v)
    unknown_sigs = {s: n for s, n in m["viol_sigs"].items() if s not in open_sigs}
    rc = 0
    for sig, v in sorted(known_hit.items()):
        print("KNOWN-FINDING: property=%s %s [%s; %d cases this run; e.g. %s]" % (
            pid, open_sigs[sig]["what"], sig, m["viol_sigs"].get(sig, 0), json.dumps(v["case"])[:200]))
    OUT = os.environ.get("VERIF_OUT", HERE)   # mutant trials redirect evidence/replays away from /verif
    rdir = os.path.join(OUT, "replays", pid)
    if os.path.isdir(rdir):                      # replay artefacts always belong to the latest run
        for fn in os.listdir(rdir):
            if fn.endswith(".json"):
                os.remove(os.path.join(rdir, fn))
    if real or (det is False and getattr(mod, "DETERMINISM_IS_PROPERTY", False)) or crashes:
        os.makedirs(rdir, exist_ok=True)
    for k, v in enumerate(real[:20]):
        path = os.path.join(rdir, "%03d.json" % k)
        with open(path, "w") as fh:
            json.dump(v, fh, indent=1)
        print("VIOLATION property=%s replay=%s  # %s %s" % (pid, path, v["sig"], (v.get("msg") or "")[:160]))
        rc = 1
    if det is False:
        if getattr(mod, "DETERMINISM_IS_PROPERTY", False):
            path = os.path.join(rdir, "nondeterminism.json")
            with open(path, "w") as fh:
                json.dump(dict(property=pid, sig="nondeterministic_across_processes",
                               case=dict(shard=shards[i0]), msg="same shard, two fresh processes, different observations"), fh, indent=1)
            print("VIOLATION property=%s replay=%s  # observations differ between two fresh processes" % (pid, path))
            rc = 1
        else:
            print("WARNING: observations of shard %s differ between two fresh processes" % shards[i0]["name"])
    for r in crashes:
        # harness crash: report loudly; this is a broken check or a tree that breaks the harness'
        # assumptions (e.g. an API that no longer exists) -> counts as violation of "held on everything explored"
        path = os.path.join(rdir, "crash_%s.json" % r["shard"].replace("/", "_")[:40])
        with open(path, "w") as fh:
            json.dump(dict(property=pid, sig="harness_crash", case=dict(shard=r["shard"]), msg=r["crash"]), fh, indent=1)
        print("VIOLATION property=%s replay=%s  # harness crashed in shard %s: %s" % (
            pid, path, r["shard"], r["crash"].strip().splitlines()[-1][:200]))
        rc = 1

    # lines of the anchored functions executed by this run (non-vacuity signal; compiled numba kernels are not visible)
    merged_lines = {}
    for r in results:
        for f, ls in (r.get("lines") or {}).items():
            merged_lines.setdefault(f, set()).update(ls)
    try:
        from mc import linecov
        anchors = []
        with open(os.path.join(HERE, "properties.jsonl")) as fh:
            for ln in fh:
                pj = json.loads(ln)
                if pj["id"] == pid:
                    anchors = pj["anchors"]["files"]
        line_cov = linecov.summarise({f: sorted(v) for f, v in merged_lines.items()}, env.REPO, anchors)
    except Exception as e:  # noqa: BLE001
        line_cov = {"error": str(e)}
    level = getattr(mod, "LEVEL", "exploration")
    cov = dict(evaluations=m["evaluations"], distinct_nontrivial=m["nontrivial"],
               rule=getattr(mod, "RULE", ""), samples=m["samples"][:6],
               exhaustive=(not m["capped"]) and tier not in getattr(mod, "REDUCED", {}), shards=m["shards"],
               reduction=getattr(mod, "REDUCED", {}).get(tier, "none: the stated bound is enumerated completely"),
               distinct_outcomes=len(m["outcomes"]), counters=m["counters"],
               bound=mod.bound(tier) if hasattr(mod, "bound") else "",
               determinism_replay_identical=det, environment=envinfo,
               known_findings_hit=sorted(known_hit), violation_signatures=unknown_sigs,
               anchored_lines_executed=line_cov)
    if level == "model_checking":
        cov["states"] = m["counters"].get("states", 0)
        cov["transitions"] = m["counters"].get("transitions", 0)
        cov["traces_validated_against_impl"] = m["counters"].get("traces_validated_against_impl", 0)
    if m["notes"]:
        cov["notes"] = m["notes"][:10]
    ev = dict(property_id=pid, tier=tier, seed=seed, level=level, coverage=cov,
              assumptions=list(getattr(mod, "ASSUMPTIONS", [])), wall_s=round(time.time() - t0, 2),
              violations=len(unknown_sigs) and sum(unknown_sigs.values()) or 0)
    os.makedirs(os.path.join(OUT, "evidence"), exist_ok=True)
    with open(os.path.join(OUT, "evidence", pid + ".json"), "w") as fh:
        json.dump(ev, fh, indent=1)
    print("%s tier=%s seed=%d shards=%d evaluations=%d nontrivial=%d outcomes=%d violations=%d known=%d wall=%.1fs %s" % (
        pid, tier, seed, m["shards"], m["evaluations"], m["nontrivial"], len(m["outcomes"]),
        ev["violations"], len(known_hit), time.time() - t0,
        " ".join("%s=%s" % kv for kv in sorted(m["counters"].items()))))
    slow = sorted(results, key=lambda r: -r.get("wall_s", 0))[:4]
    print("slowest shards: " + ", ".join("%s %.1fs" % (r["shard"], r.get("wall_s", 0)) for r in slow))
    sys.exit(rc)


if __name__ == "__main__":
    main()
