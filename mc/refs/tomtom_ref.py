"""Independent complete-score reference for TOMTOM (C14) - plain numpy/Python.

Input: the integerised similarity matrix S[j, i] (pooled target column j x query column i, values 0..n_bins), the integer
`offset` (score of an unaligned query column), the multiplicity of every pooled column, and for every target the list of
pooled column indices.  Output per target: best complete score over all relative offsets, the set of (offset, overlap)
attaining it, and p = 1 - prod_offsets CDF_offset(best - 1) where CDF_offset is the null distribution of that offset's
score with target columns drawn independently from the pooled-column distribution.
"""
import numpy


def column_pmfs(S, counts, n_bins):
    N, nq = S.shape
    w = numpy.asarray(counts, dtype=numpy.float64) / float(numpy.sum(counts))
    f = numpy.zeros((nq, n_bins + 1))
    for i in range(nq):
        for j in range(N):
            f[i, S[j, i]] += w[j]
    return f


def span_pmf(f, a, b, nq, offset, n_bins):
    """pmf of the complete score when query columns a..b (inclusive) are aligned and the others are not."""
    maxs = n_bins * nq + nq * offset + 1
    pm = numpy.zeros(maxs)
    pm[(nq - (b - a + 1)) * offset] = 1.0
    for i in range(a, b + 1):
        new = numpy.zeros(maxs)
        for x in range(n_bins + 1):
            if f[i, x] > 0:
                new[x:] += f[i, x] * pm[:maxs - x]
        pm = new
    return pm


def query_vs_targets(S, offset, counts, target_cols, n_bins):
    """-> list of dict(p=, score=, attain=set((offset, overlap)))"""
    S = numpy.asarray(S, dtype=numpy.int64)
    nq = S.shape[1]
    f = column_pmfs(S, counts, n_bins)
    cache = {}
    out = []
    for cols in target_cols:
        nt = len(cols)
        best, att, spans = -1, [], []
        for k in range(-(nq - 1), nt):             # k = target index aligned with query column 0
            al = [(k + i, i) for i in range(nq) if 0 <= k + i < nt]
            qa, qb = al[0][1], al[-1][1]
            score = int(sum(S[cols[a], i] for a, i in al) + (nq - len(al)) * offset)
            if score > best:
                best, att = score, [(k, len(al))]
            elif score == best:
                att.append((k, len(al)))
            spans.append((qa, qb))
        prod = 1.0
        for sp in spans:
            if sp not in cache:
                cache[sp] = numpy.cumsum(span_pmf(f, sp[0], sp[1], nq, offset, n_bins))
            prod *= cache[sp][best - 1] if best - 1 >= 0 else 0.0
        out.append(dict(p=1.0 - prod, score=best, attain=set(att)))
    return out, f


def merge_strands(fwd, rev):
    """-> dict(p=, score=, strands=set of acceptable strand labels, attain_by_strand)"""
    p = 1.0 - (1.0 - min(fwd["p"], rev["p"])) ** 2
    if fwd["score"] > rev["score"]:
        strands = {0}
    elif rev["score"] > fwd["score"]:
        strands = {1}
    else:
        strands = {0, 1}
    return dict(p=p, score=max(fwd["score"], rev["score"]), strands=strands, attain={0: fwd["attain"], 1: rev["attain"]},
                scores={0: fwd["score"], 1: rev["score"]})
