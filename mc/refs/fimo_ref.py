"""Exact reference for FIMO's score -> p-value tables and a pure-Python scanner (C11, C12).

discretised column scores = numpy.round(log_pwm / bin_size) on the same float64 values (round-half-even, as numpy does);
the null is the uniform distribution over all 4**w sequences; tail counts are exact Python integers.
"""
import math

import numpy


def int_scores(log_pwm, bin_size):
    return numpy.round(numpy.asarray(log_pwm, dtype=numpy.float64) / bin_size).astype(numpy.int64)


def score_counts(ip):
    """dict: discretised total score -> number of sequences (exact ints). DP over columns."""
    n, l = ip.shape
    cnt = {0: 1}
    for i in range(l):
        new = {}
        col = [int(v) for v in ip[:, i]]
        for s, c in cnt.items():
            for v in col:
                new[s + v] = new.get(s + v, 0) + c
        cnt = new
    return cnt


def score_counts_bruteforce(ip):
    n, l = ip.shape
    tot = numpy.zeros((1,), dtype=numpy.int64)
    for i in range(l):
        tot = (tot[:, None] + ip[None, :, i]).reshape(-1)
    vals, c = numpy.unique(tot, return_counts=True)
    return {int(v): int(k) for v, k in zip(vals, c)}


def tail_log2(cnt, n, l, bins):
    """log2 P(score >= b) for each b in bins (ascending ints); -inf where 0. Uses exact integer tails."""
    keys = sorted(cnt)
    total = n ** l
    out = []
    # suffix sums
    suf = {}
    acc = 0
    for k in reversed(keys):
        acc += cnt[k]
        suf[k] = acc
    import bisect
    for b in bins:
        i = bisect.bisect_left(keys, b)
        ge = suf[keys[i]] if i < len(keys) else 0
        if ge == 0:
            out.append(float("-inf"))
        else:
            # log2 of an exact rational: use big-int aware computation
            out.append(math.log2(ge) - l * math.log2(n) if ge.bit_length() < 1000 else (ge.bit_length() - 1) + math.log2(ge >> (ge.bit_length() - 53)) - 52 - l * math.log2(n))
    return out, min(keys), max(keys)
