"""Hand-written explorers (no explicit-state explorer for Python is installed).

* Chooser / explore_dfs : stateless choice-point DFS.  A driver `run(ch)` calls `ch.choose(n)`
  for every decision; the explorer re-runs it for every sequence of choices (odometer order,
  alternative 0 first).  `ch.choose(n, deviation=True)` marks alternatives > 0 as deviations from
  the default environment answer; with `max_deviations=k` only executions with at most k
  deviations are explored (iterative deviation bounding).  Replaying a prefix whose recorded
  arity differs from what the driver now asks for is a hard error (unowned nondeterminism).
* bfs : explicit-state breadth-first search where a state is identified by canon(state) and is
  reached by an event history which is replayed on a fresh object (live torch modules and numba
  buffers do not copy reliably).
"""
import collections


class Divergence(RuntimeError):
    pass


class Chooser:
    def __init__(self, prefix=(), max_deviations=None):
        self.prefix = list(prefix)
        self.trace = []          # (choice, arity, is_deviation_point)
        self.max_deviations = max_deviations
        self.deviations = 0

    def choose(self, n, deviation=False, label=None):
        if n <= 0:
            raise ValueError("choose(n) needs n >= 1")
        i = len(self.trace)
        if i < len(self.prefix):
            c, n_rec = self.prefix[i]
            if n_rec is not None and n_rec != n:
                raise Divergence("choice point %d: arity %d recorded, %d now (%s)" % (i, n_rec, n, label))
            if c >= n:
                raise Divergence("choice point %d: recorded choice %d out of range %d" % (i, c, n))
        else:
            c = 0
        if deviation and c > 0:
            self.deviations += 1
        self.trace.append((c, n, deviation))
        return c

    def choices(self):
        return [c for c, _, _ in self.trace]


def explore_dfs(run, max_deviations=None, max_executions=None):
    """Yield (choices, result) for every execution of run(ch).  Complete unless max_executions hit
    (then the generator's .capped attribute protocol: we return a final sentinel via StopIteration
    value True)."""
    prefix = []
    n_exec = 0
    while True:
        ch = Chooser(prefix, max_deviations)
        res = run(ch)
        n_exec += 1
        yield ch.choices(), res
        if max_executions is not None and n_exec >= max_executions:
            return True
        t = list(ch.trace)
        # next prefix: increment the deepest choice that can still be incremented (respecting
        # the deviation bound)
        while t:
            c, n, dev = t[-1]
            if c + 1 < n:
                ndev = sum(1 for (cc, nn, dd) in t[:-1] if dd and cc > 0) + (1 if dev else 0)
                if max_deviations is None or (not dev) or ndev <= max_deviations:
                    break
            t.pop()
        if not t:
            return False
        prefix = [(c, n) for c, n, _ in t[:-1]] + [(t[-1][0] + 1, t[-1][1])]


def explore_all(run, **kw):
    out = []
    gen = explore_dfs(run, **kw)
    capped = False
    while True:
        try:
            out.append(next(gen))
        except StopIteration as s:
            capped = bool(s.value)
            break
    return out, capped


def bfs(initial_history, build, enabled_events, canon, invariant, max_depth, on_transition=None):
    """Explicit-state BFS.  A state is the event history reaching it.
    build(hist) -> fresh state object with hist replayed on the REAL code.
    Returns dict(states=, transitions=, max_depth=, violations=[(hist, ev, why)])."""
    s0 = build(list(initial_history))
    seen = {canon(s0): list(initial_history)}
    frontier = collections.deque([list(initial_history)])
    transitions = 0
    violations = []
    depth_reached = 0
    why = invariant(s0)
    if why:
        violations.append((list(initial_history), None, why))
    while frontier:
        hist = frontier.popleft()
        if len(hist) - len(initial_history) >= max_depth:
            continue
        st = build(hist)
        for ev in enabled_events(st):
            nxt = build(hist + [ev])
            transitions += 1
            if on_transition is not None:
                why = on_transition(st, ev, nxt, hist)
                if why:
                    violations.append((hist, ev, why))
            why = invariant(nxt)
            if why:
                violations.append((hist, ev, why))
            k = canon(nxt)
            if k not in seen:
                seen[k] = hist + [ev]
                frontier.append(hist + [ev])
                depth_reached = max(depth_reached, len(hist) + 1 - len(initial_history))
    return dict(states=len(seen), transitions=transitions, max_depth=depth_reached,
                violations=violations, witnesses=seen)
