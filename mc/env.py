"""Process environment for checks: must be imported (and setup() called) BEFORE torch / numba /
tangermeme are imported.  Owns: numba on-disk cache (keyed by a hash of the tree under test so
stale machine code can never be used), thread counts, hash seed, which tangermeme tree is imported.
"""
import hashlib
import os
import shutil
import sys

VERIF = os.path.dirname(os.path.dirname(os.path.abspath(__file__)))
REPO = os.environ.get("VERIF_REPO", "/repo")
GUARD = "TANGERMEME_VERIF"


def tree_hash(repo=None):
    repo = repo or REPO
    h = hashlib.sha256()
    root = os.path.join(repo, "tangermeme")
    for d, dirs, files in sorted(os.walk(root)):
        dirs.sort()
        if "__pycache__" in d:
            continue
        for f in sorted(files):
            if f.endswith(".py"):
                p = os.path.join(d, f)
                h.update(os.path.relpath(p, root).encode())
                with open(p, "rb") as fh:
                    h.update(fh.read())
    return h.hexdigest()[:16]


def setup(numba_threads=None):
    """Idempotent. Returns a dict describing the environment (goes into the evidence)."""
    th = os.environ.get("VERIF_TREE_HASH") or tree_hash()
    os.environ["VERIF_TREE_HASH"] = th
    base = os.path.join(VERIF, ".nbcache")
    cache = os.path.join(base, th)
    os.makedirs(cache, exist_ok=True)
    # drop caches of other trees (disk is limited); keep at most 3 most recent
    try:
        others = sorted((d for d in os.listdir(base) if d != th),
                        key=lambda d: os.path.getmtime(os.path.join(base, d)))
        for d in others[:-2]:
            shutil.rmtree(os.path.join(base, d), ignore_errors=True)
    except OSError:
        pass
    os.environ["NUMBA_CACHE_DIR"] = cache
    os.environ.setdefault("PYTHONHASHSEED", "0")
    os.environ.setdefault("OMP_NUM_THREADS", "1")
    os.environ.setdefault("MKL_NUM_THREADS", "1")
    os.environ.setdefault("OPENBLAS_NUM_THREADS", "1")
    os.environ[GUARD] = "1"
    if numba_threads is not None:
        os.environ["NUMBA_NUM_THREADS"] = str(numba_threads)
    # make sure the tree under test is the one imported
    if REPO not in sys.path:
        sys.path.insert(0, REPO)
    if VERIF not in sys.path:
        sys.path.insert(0, VERIF)
    return {"repo": REPO, "tree_hash": th, "numba_cache": cache,
            "python": sys.version.split()[0]}


def worker_init():
    """Called in every worker process before any library import."""
    setup()
    import torch
    torch.set_num_threads(1)
    torch.use_deterministic_algorithms(False)
    import warnings
    warnings.filterwarnings("ignore", category=DeprecationWarning)


def scratch_dir(tag):
    """Scratch directory for run-time fixtures (FASTA / bigWig / MEME files); the caller removes
    it.  Created at run time under the system temp dir: nothing a registered command needs is
    kept there between runs."""
    import tempfile
    return tempfile.mkdtemp(prefix="tgmverif_" + tag + "_")
