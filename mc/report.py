"""Recorder used inside shards + merge / triage / evidence writing used by the runner."""
import hashlib
import json
import os
import time

from . import env

MAX_VIOL_PER_SHARD = 25
MAX_SAMPLES = 4


def jsonable(o):
    try:
        import numpy
        import torch
    except Exception:  # pragma: no cover
        numpy = torch = None
    if isinstance(o, dict):
        return {str(k): jsonable(v) for k, v in o.items()}
    if isinstance(o, (list, tuple, set, frozenset)):
        return [jsonable(v) for v in o]
    if torch is not None and isinstance(o, torch.Tensor):
        return jsonable(o.detach().cpu().tolist())
    if numpy is not None and isinstance(o, numpy.ndarray):
        return jsonable(o.tolist())
    if numpy is not None and isinstance(o, numpy.generic):
        return jsonable(o.item())
    if isinstance(o, float):
        if o != o:
            return "nan"
        if o in (float("inf"), float("-inf")):
            return "inf" if o > 0 else "-inf"
        return o
    if isinstance(o, (int, str, bool)) or o is None:
        return o
    return repr(o)


class Recorder:
    def __init__(self, pid, shard_name=""):
        self.pid = pid
        self.shard = shard_name
        self.evaluations = 0
        self.nontrivial = 0
        self.samples = []
        self.violations = []
        self.n_violations = 0
        self.viol_sigs = {}
        self.counters = {}
        self.outcomes = set()
        self._h = hashlib.sha256()
        self.notes = []
        self.capped = False
        self.t0 = time.time()

    # ---- coverage bookkeeping
    def case(self, n=1, nontrivial=0):
        self.evaluations += n
        self.nontrivial += nontrivial

    def count(self, name, n=1):
        self.counters[name] = self.counters.get(name, 0) + n

    def sample(self, obj):
        if len(self.samples) < MAX_SAMPLES:
            self.samples.append(jsonable(obj))

    def observe(self, *objs):
        """Feed observations into the shard digest (fresh-process determinism replay)."""
        rs = [repr(jsonable(o)) for o in objs]
        for r in rs:
            self._h.update(r.encode())
        # every observation is also a distinct-outcome sample (vacuity signal: one outcome from many executions = nothing differed)
        if rs and len(self.outcomes) < 200000:
            self.outcomes.add(hashlib.md5("\x00".join(rs).encode()).hexdigest()[:12])

    def outcome(self, obj):
        if len(self.outcomes) < 200000:
            self.outcomes.add(hashlib.md5(repr(jsonable(obj)).encode()).hexdigest()[:12])

    def note(self, s):
        if len(self.notes) < 20:
            self.notes.append(s)

    # ---- violations
    def violation(self, sig, case, expected=None, observed=None, msg=""):
        """sig: stable signature 'site:kind' of the disagreement (used for known-finding matching:
        call site + trigger class + the wrong behaviour observed)."""
        self.n_violations += 1
        self.viol_sigs[sig] = self.viol_sigs.get(sig, 0) + 1
        if self.viol_sigs[sig] <= 3 and len(self.violations) < MAX_VIOL_PER_SHARD:
            self.violations.append(dict(property=self.pid, sig=sig, shard=self.shard,
                                        case=jsonable(case), expected=jsonable(expected),
                                        observed=jsonable(observed), msg=msg))

    def result(self):
        return dict(shard=self.shard, evaluations=self.evaluations, nontrivial=self.nontrivial,
                    samples=self.samples, violations=self.violations,
                    n_violations=self.n_violations, viol_sigs=self.viol_sigs,
                    counters=self.counters, outcomes=sorted(self.outcomes),
                    digest=self._h.hexdigest(), notes=self.notes, capped=self.capped,
                    wall_s=time.time() - self.t0)


def load_findings():
    p = os.path.join(env.VERIF, "known_findings.json")
    if not os.path.exists(p):
        return []
    with open(p) as fh:
        return json.load(fh).get("findings", [])


def merge(results):
    m = dict(evaluations=0, nontrivial=0, samples=[], violations=[], n_violations=0, viol_sigs={},
             counters={}, outcomes=set(), notes=[], capped=False, shards=len(results))
    for r in results:
        m["evaluations"] += r["evaluations"]
        m["nontrivial"] += r["nontrivial"]
        if len(m["samples"]) < 8:
            m["samples"].extend(r["samples"][:2])
        m["violations"].extend(r["violations"])
        m["n_violations"] += r["n_violations"]
        for k, v in r["viol_sigs"].items():
            m["viol_sigs"][k] = m["viol_sigs"].get(k, 0) + v
        for k, v in r["counters"].items():
            m["counters"][k] = m["counters"].get(k, 0) + v
        m["outcomes"].update(r["outcomes"])
        m["notes"].extend(r["notes"][:3])
        m["capped"] = m["capped"] or r["capped"]
    return m
