"""Architecture grammar, fixed weights / inputs and an independent rescale-rule evaluator for the DeepLIFT/SHAP checks."""
import itertools

import numpy
import torch

A = 4
ACTS = ["ReLU", "ReLU6", "RReLU", "SELU", "CELU", "GELU", "SiLU", "Mish", "ELU", "LeakyReLU", "Sigmoid", "Tanh", "Softplus", "Softshrink",
        "LogSigmoid", "PReLU"]
CONVS = [(1, 1, 1, 0), (2, 1, 1, 0), (3, 1, 1, 0), (3, 1, 1, 1), (3, 1, 1, "same"), (2, 2, 1, 0), (2, 1, 2, 0), (3, 2, 1, 1),
         (3, 1, 1, 1, "nobias"), (2, 1, 1, 1, "reflect")]   # (k, stride, dilation, padding[, option])

# skeletons: C conv, A activation, M max-pool (default stride), P avg-pool, F flatten, L hidden linear; a final Linear is appended
SKELETONS = {
    "F": 0, "FLA": 1, "CAF": 1, "CMF": 1, "CAMF": 2, "CMAF": 2, "CAPFLA": 2, "CACAF": 2, "CAFLA": 2, "FLALA": 2, "CPAF": 1,
    "CAMCAFLA": 4, "CAFLALA": 3, "CACAMFLA": 4, "CAPCAF": 2,
}


def make_act(name):
    if name == "PReLU":
        m = torch.nn.PReLU(init=0.3)
    elif name == "LeakyReLU":
        m = torch.nn.LeakyReLU(0.1)
    else:
        m = getattr(torch.nn, name)()
    return m.double()


def build(skeleton, acts, convs, pool, L, n_out, wseed):
    """-> nn.Sequential (float64, distinct module instances) or None if a layer does not fit."""
    g = torch.Generator().manual_seed(1000 + wseed)
    layers = []
    ch, ln = A, L
    ai = ci = 0
    flat = None

    def qint(shape, lo=-6, hi=7):
        return torch.randint(lo, hi, shape, generator=g).double() / 4.0
    for s in skeleton:
        if s == "C":
            cfg = convs[ci % len(convs)]
            k, st, dil, pad = cfg[:4]
            opt = cfg[4] if len(cfg) > 4 else None
            ci += 1
            span = dil * (k - 1) + 1
            if pad == "same":
                if st != 1:
                    return None
                new_ln = ln
            else:
                if ln + 2 * pad < span:
                    return None
                new_ln = (ln + 2 * pad - span) // st + 1
            c = torch.nn.Conv1d(ch, 3, k, stride=st, dilation=dil, padding=pad, bias=(opt != "nobias"),
                                padding_mode=("reflect" if opt == "reflect" else "zeros")).double()
            with torch.no_grad():
                c.weight.copy_(qint(c.weight.shape))
                if c.bias is not None:
                    c.bias.copy_(qint(c.bias.shape))
            layers.append(c)
            ch, ln = 3, new_ln
        elif s == "A":
            layers.append(make_act(acts[ai % len(acts)]))
            ai += 1
        elif s == "M":
            if ln < pool:
                return None
            layers.append(torch.nn.MaxPool1d(pool))
            ln = ln // pool
        elif s == "P":
            if ln < 2:
                return None
            layers.append(torch.nn.AvgPool1d(2))
            ln = ln // 2
        elif s == "F":
            layers.append(torch.nn.Flatten())
            flat = ch * ln
        elif s == "L":
            lin = torch.nn.Linear(flat, 4).double()
            with torch.no_grad():
                lin.weight.copy_(qint(lin.weight.shape, -4, 5))
                lin.bias.copy_(qint(lin.bias.shape))
            layers.append(lin)
            flat = 4
    if ln < 1:
        return None
    lin = torch.nn.Linear(flat, n_out).double()
    with torch.no_grad():
        lin.weight.copy_(qint(lin.weight.shape, -4, 5))
        lin.bias.copy_(qint(lin.bias.shape))
    layers.append(lin)
    return torch.nn.Sequential(*layers)


def inputs(L, seed):
    """6 one-hot examples, and per example 6 references (4 one-hot, all-zero, uniform 0.25) -> X (6,4,L), R (6,6,4,L)"""
    rs = numpy.random.RandomState(77 + seed)
    X = torch.zeros(6, A, L, dtype=torch.float64)
    for i in range(6):
        X[i, rs.randint(0, A, L), torch.arange(L)] = 1
    R = torch.zeros(6, 6, A, L, dtype=torch.float64)
    for i in range(6):
        for j in range(4):
            R[i, j, rs.randint(0, A, L), torch.arange(L)] = 1
        R[i, 5] = 0.25
    return X, R


def forward(model, x):
    with torch.no_grad():
        return model(x)


# ------------------------------------------------------------------------------------------------ independent rescale rule
LINEAR_TYPES = (torch.nn.Conv1d, torch.nn.Linear, torch.nn.AvgPool1d, torch.nn.Flatten)


def rescale_multipliers(model, x, ref, target, lo_band=1e-7, hi_band=1e-5):
    """Layer-by-layer DeepLIFT rescale rule for an nn.Sequential of linear layers and element-wise activations.
    x, ref: (B, 4, L).  Returns (multipliers (B,4,L), in_band flag, n_derivative_cases)."""
    model = model.eval()
    acts_in_x, acts_in_r, acts_out_x, acts_out_r = {}, {}, {}, {}
    hx, hr = x, ref
    ins_x = []
    with torch.no_grad():
        for k, layer in enumerate(model):
            ins_x.append((hx, hr))
            ox, orr = layer(hx), layer(hr)
            hx, hr = ox, orr
        out_shape = hx.shape
    m = torch.zeros(out_shape, dtype=torch.float64)
    m[:, target] = 1.0
    in_band = False
    n_deriv = 0
    for k in reversed(range(len(model))):
        layer = model[k]
        ix, ir = ins_x[k]
        if isinstance(layer, LINEAR_TYPES):
            # vector-Jacobian product of this layer alone (independent of hooks and of the evaluation point for linear maps)
            leaf = ix.clone().requires_grad_(True)
            with torch.enable_grad():
                o = layer(leaf)
                m = torch.autograd.grad(o, leaf, grad_outputs=m)[0]
        else:
            with torch.no_grad():
                ox, orr = layer(ix), layer(ir)
            d_in = ix - ir
            d_out = ox - orr
            leaf = ix.clone().requires_grad_(True)
            with torch.enable_grad():
                deriv = torch.autograd.grad(layer(leaf).sum(), leaf)[0]
            band = (d_in.abs() > lo_band) & (d_in.abs() < hi_band)
            in_band = in_band or bool(band.any())
            small = d_in.abs() < 1e-6
            n_deriv += int(small.sum())
            slope = torch.where(small, deriv, d_out / torch.where(small, torch.ones_like(d_in), d_in))
            m = m * slope
    return m, in_band, n_deriv


def architectures(max_depth, full_depth2, seed):
    """Yield (name, skeleton, acts, convs, pool). Depth <= 2: every activation in every slot x conv configurations (reduced
    for two-conv skeletons); deeper skeletons: every activation in every slot while the other slots cycle."""
    for sk, depth in SKELETONS.items():
        if depth > max_depth:
            continue
        na, nc, nm = sk.count("A"), sk.count("C"), sk.count("M")
        pools = (2, 3) if nm else (2,)
        if depth <= 2 and full_depth2:
            act_sets = list(itertools.product(ACTS, repeat=na)) if na else [()]
            conv_sets = [(c,) for c in CONVS] if nc == 1 else ([(CONVS[i], CONVS[j]) for i, j in ((0, 1), (2, 0), (3, 5), (4, 2), (6, 1), (1, 7))] if nc == 2 else [()])
            if na == 2 and nc >= 1:
                conv_sets = conv_sets[:: 2] if nc == 1 else conv_sets[:3]
        else:
            act_sets = []
            for slot in range(max(na, 1)):
                for a in ACTS:
                    s = [ACTS[(ACTS.index(a) + 3 * (q + 1) + seed) % len(ACTS)] for q in range(na)]
                    if na:
                        s[slot] = a
                    act_sets.append(tuple(s))
            act_sets = sorted(set(act_sets))
            conv_sets = [tuple(CONVS[(i + q) % len(CONVS)] for q in range(nc)) for i in (0, 2, 3, 5, 8, 9)] if nc else [()]
        for acts in act_sets:
            for convs in conv_sets:
                for pool in pools:
                    yield ("%s|%s|%s|p%d" % (sk, ",".join(acts), ";".join("k%ds%dd%dp%s" % c[:4] + (c[4] if len(c) > 4 else "") for c in convs), pool), sk, acts, convs, pool)


def min_delta_in(model, X, R):
    """Smallest non-zero |in(x) - in(ref)| over all activation / max-pool inputs, per (example, reference) pair.
    X (n,4,L), R (n,r,4,L) -> tensor (n, r).  Used to scale the floating-point tolerance: the rescale rule divides by this."""
    n, r = R.shape[:2]
    hx = X[:, None].expand(-1, r, -1, -1).reshape(-1, *X.shape[1:])
    hr = R.reshape(-1, *R.shape[2:])
    out = torch.full((n * r,), float("inf"), dtype=torch.float64)
    was = model.training
    model.eval()
    with torch.no_grad():
        for layer in model:
            if not isinstance(layer, LINEAR_TYPES):
                d = (hx - hr).abs().reshape(n * r, -1)
                d = torch.where(d == 0, torch.full_like(d, float("inf")), d)
                out = torch.minimum(out, d.min(dim=1).values)
            hx, hr = layer(hx), layer(hr)
    model.train(was)
    return out.reshape(n, r)


class Wrapper(torch.nn.Module):
    """a custom module around a net (the activations are then nested two levels deep)"""
    def __init__(self, inner):
        super().__init__()
        self.block = torch.nn.ModuleDict({"inner": inner})

    def forward(self, X):
        return self.block["inner"](X)


def nest(model, mode):
    """The same layer objects arranged differently: mode 1 = two nested Sequentials, mode 2 = custom wrapper module around a nested Sequential."""
    layers = list(model)
    k = max(1, len(layers) // 2)
    nested = torch.nn.Sequential(torch.nn.Sequential(*layers[:k]), torch.nn.Sequential(*layers[k:]))
    return nested if mode == 1 else Wrapper(nested)
