"""Helpers shared by property drivers (decoders written independently of tangermeme.utils)."""
import itertools

import numpy
import torch

ALPHA = "ACGTUXYZ"


def all_codes(A, L):
    """(A**L, L) int64 array of all sequences over range(A), lexicographic."""
    if L == 0:
        return numpy.zeros((1, 0), dtype=numpy.int64)
    return numpy.array(list(itertools.product(range(A), repeat=L)), dtype=numpy.int64)


def ohe(codes, A, dtype=torch.float32):
    """codes (N, L) -> one-hot tensor (N, A, L); code -1 = all-zero column."""
    codes = numpy.asarray(codes)
    N, L = codes.shape
    X = numpy.zeros((N, A, L), dtype=numpy.float64)
    n, l = numpy.nonzero(codes >= 0)
    X[n, codes[n, l], l] = 1
    return torch.from_numpy(X).to(dtype)


def decode(Y):
    """tensor (..., A, L) -> (codes (..., L), ok (bool)) ; ok iff every column is exactly one-hot."""
    y = Y.detach().cpu().numpy().astype(numpy.float64)
    ok = bool(numpy.isin(y, (0.0, 1.0)).all() and (y.sum(axis=-2) == 1).all())
    return y.argmax(axis=-2), ok


def s_of(codes, alpha=ALPHA):
    return "".join(alpha[c] if c >= 0 else "N" for c in codes)


def codes_of(s, alpha=ALPHA):
    return [alpha.index(c) if c in alpha else -1 for c in s]


def call(f, *a, **k):
    """-> ('ok', value) or ('raise', 'ExcType: msg')"""
    try:
        return "ok", f(*a, **k)
    except Exception as e:  # noqa: BLE001 - any exception type counts as 'rejected'
        return "raise", "%s: %s" % (type(e).__name__, str(e)[:120])
