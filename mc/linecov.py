"""Non-vacuity signal: which lines of the anchored (pure-Python) tangermeme functions were executed by a check.
Uses sys.monitoring LINE events (each location is disabled after its first hit, so the overhead is negligible).
numba-compiled kernels are invisible to this (their py_func bodies are visible when a check runs them as Python)."""
import os
import sys

TOOL = 3
_hits = set()
_root = None


def start(repo):
    global _root
    _root = os.path.join(os.path.realpath(repo), "tangermeme") + os.sep
    mon = sys.monitoring
    try:
        mon.use_tool_id(TOOL, "verif-linecov")
    except ValueError:
        return

    def on_line(code, line):
        fn = code.co_filename
        if fn.startswith(_root):
            _hits.add((fn[len(_root):], line))
        return mon.DISABLE
    mon.register_callback(TOOL, mon.events.LINE, on_line)
    mon.set_events(TOOL, mon.events.LINE)


def collect():
    out = {}
    for f, l in _hits:
        out.setdefault(f, []).append(l)
    return {f: sorted(v) for f, v in out.items()}


def executable_lines(path):
    """{function qualname: set(lines)} for every function in the file (nested code objects included under their parent)."""
    src = open(path).read()
    top = compile(src, path, "exec")
    res = {}

    def lines_of(code):
        ls = {l for (_, _, l) in code.co_lines() if l is not None}
        for c in code.co_consts:
            if hasattr(c, "co_code"):
                ls |= lines_of(c)
        return ls
    for c in top.co_consts:
        if hasattr(c, "co_code"):
            ls = lines_of(c)
            ls.discard(c.co_firstlineno)
            res[c.co_name] = ls
    return res


def summarise(merged, repo, files):
    """merged: {relfile: lines}; files: anchored files (relative to repo).  -> {file: {function: 'hit/total'}} for functions that were entered."""
    out = {}
    for f in files:
        rel = f.split("tangermeme/", 1)[-1]
        path = os.path.join(repo, "tangermeme", rel)
        if not os.path.exists(path):
            continue
        hit = set(merged.get(rel, []))
        per = {}
        for fn, ls in executable_lines(path).items():
            h = len(ls & hit)
            if h:
                per[fn] = "%d/%d" % (h, len(ls))
        if per:
            out[rel] = per
    return out
