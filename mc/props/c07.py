"""C07 - a model is left behaviourally unchanged by every call, even one that fails.

Fault enumeration + explicit-state model checking on the real code.
 * Alphabet: every tangermeme function that takes a model, as a fault-free event and with EVERY single injected fault:
   an exception at the k-th forward call, at the k-th reference-generator call, at the k-th backward-hook (rescale rule) call,
   for all k = 1..K with K counted in a fault-free run of the same call; plus invalid-input events (N column, out-of-range target,
   args with a wrong leading dimension, reference tensor of the wrong shape, RandomState object as random_state).
 * State = canon(model): per-module hook counts, SHA-256 of every parameter and buffer, outputs and ordinary autograd gradients on a
   probe batch of even and odd size after .eval().  BFS over event histories from the pristine model (fresh deepcopy + replay per
   state): if the property holds the graph has ONE state and every event is a self-loop; any second state is a violation and its
   shortest history is the counterexample.
 * Differential oracle independent of the fingerprint: for every history of length 2 (3 on a reduced alphabet) the result of the
   last call on the shared model equals the result of the same call on a fresh copy of the pristine model.
"""
import collections
import copy
import hashlib
import itertools

import numpy
import torch

from mc.common import call
from mc.report import Recorder

PID = "C07"
LEVEL = "fault_enumeration"
RULE = ("cases = (API event, fault kind, fault index k) for every k up to the count measured in a fault-free run + invalid-input events, "
        "each applied to the pristine model and in histories (BFS over canonical model states; all ordered pairs / triples for the "
        "differential oracle); non-trivial = events with an injected fault or invalid input (the call raises part-way)")
ASSUMPTIONS = ["the model may legitimately end in eval mode; scratch attributes that do not affect behaviour (module.input/.output, _NON_LINEAR_OPS) are ignored",
               "faults are Python exceptions raised from the model's forward, the reference generator or a rescale-rule hook; one fault per API call", "CPU only"]
L = 8


VARIANT = "plain"


def _user_hook(module, inputs, output):
    """a user's own (passive) forward hook: must still be registered, exactly once, after every call"""
    return None


class LazyStem(torch.nn.Module):
    """builds its convolution in its first forward pass (the model gains a sub-module during whatever call comes first)"""
    def __init__(self, seed):
        super().__init__()
        self.seed = seed
        self.conv = None

    def forward(self, X):
        if self.conv is None:
            g = torch.Generator().manual_seed(77 + self.seed)
            conv = torch.nn.Conv1d(4, 4, 1).double()
            with torch.no_grad():
                conv.weight.copy_(torch.eye(4).reshape(4, 4, 1).double() + torch.randint(-1, 2, (4, 4, 1), generator=g).double() / 8.0)
                conv.bias.zero_()
            self.conv = conv
        return self.conv(X)


class Shared(torch.nn.Module):
    def __init__(self, seed):
        super().__init__()
        g = torch.Generator().manual_seed(3 + seed)
        if VARIANT in ("plain", "bn_train", "lazy_cache", "legacy_hook", "lazy_module"):
            self.net = torch.nn.Sequential(
                torch.nn.Conv1d(4, 3, 3, padding=1), torch.nn.BatchNorm1d(3), torch.nn.ReLU(), torch.nn.Dropout(0.5), torch.nn.MaxPool1d(2),
                torch.nn.Flatten(), torch.nn.Linear(3 * (L // 2), 4), torch.nn.ReLU(), torch.nn.Linear(4, 2)).double()
        else:
            # one activation OBJECT placed under two different containers (module.apply visits it twice)
            act = torch.nn.ReLU()
            self.net = torch.nn.Sequential(
                torch.nn.Sequential(torch.nn.Conv1d(4, 3, 3, padding=1), torch.nn.BatchNorm1d(3), act),
                torch.nn.Sequential(torch.nn.Conv1d(3, 3, 1), act), torch.nn.Dropout(0.5), torch.nn.MaxPool1d(2),
                torch.nn.Flatten(), torch.nn.Linear(3 * (L // 2), 2)).double()
        with torch.no_grad():
            for p in self.net.parameters():
                p.copy_(torch.randint(-4, 5, p.shape, generator=g).double() / 4.0)
            bn = [m for m in self.net.modules() if isinstance(m, torch.nn.BatchNorm1d)][0]
            bn.running_mean.copy_(torch.tensor([0.5, -0.25, 0.0]))
            bn.running_var.copy_(torch.tensor([1.0, 4.0, 0.25]))
        self.calls = 0
        self.fail_at = None
        # the caller's own configuration that every call must leave alone: a BatchNorm deliberately kept in eval mode while the rest is in
        # training mode (fine-tuning with frozen statistics), and a user forward hook on an activation
        self.train()
        bn.eval()
        if VARIANT == "bn_train":
            # the other way round: model switched to eval, BatchNorm put back into training mode (adapting its statistics): the calls
            # evaluate in evaluation mode whatever they are handed, so the running statistics must come back unchanged
            self.eval()
            bn.train()
        act = [m for m in self.net.modules() if isinstance(m, torch.nn.ReLU)][0]
        act.register_forward_hook(_user_hook)
        self._scale = None
        # a partially frozen model (frozen trunk, trainable head): the flags are the caller's, parameter by parameter
        for p_ in list(self.net.parameters())[:2]:
            p_.requires_grad_(False)
        if VARIANT == "lazy_module":
            self.net = torch.nn.Sequential(LazyStem(seed), *list(self.net.children()))
        if VARIANT == "legacy_hook":
            # an activation on which the caller once had an old-style backward hook and removed it again: torch then refuses a full backward
            # hook on that module, so every deep_lift_shap call fails while registering - and must leave nothing behind
            acts = [m for m in self.net.modules() if isinstance(m, torch.nn.ReLU)]
            h = acts[-1].register_backward_hook(lambda m, gi, go: None)
            h.remove()

    def forward(self, X, *args):
        self.calls += 1
        if self.fail_at is not None and self.calls == self.fail_at:
            raise getattr(self, "fail_exc", RuntimeError)("injected fault: forward call %d" % self.calls)
        y = self.net(X.double())
        if VARIANT == "lazy_cache":
            # state the model builds lazily in its first forward pass, in whatever mode that call runs (a cached positional window / mask)
            if self._scale is None:
                self._scale = torch.ones(1, y.shape[1], dtype=y.dtype) + 0.0 * y.detach()[:1]
            y = y * self._scale
        for a in args:
            y = y + 0.5 * a.double().reshape(a.shape[0], -1).sum(dim=1, keepdim=True)
        return y


def data(seed):
    rs = numpy.random.RandomState(5 + seed)
    X = torch.zeros(3, 4, L, dtype=torch.float64)
    for i in range(3):
        X[i, rs.randint(0, 4, L), torch.arange(L)] = 1
    R = torch.zeros(3, 2, 4, L, dtype=torch.float64)
    for i in range(3):
        for j in range(2):
            R[i, j, rs.randint(0, 4, L), torch.arange(L)] = 1
    return X, R


class Faults:
    """shared counters for the reference-generator and backward-hook seams"""
    def __init__(self):
        self.ref_calls = self.bwd_calls = 0
        self.ref_fail = self.bwd_fail = None

    def references(self, X, n=1, random_state=None, **kw):
        from tangermeme.ersatz import dinucleotide_shuffle
        self.ref_calls += 1
        if self.ref_fail is not None and self.ref_calls == self.ref_fail:
            raise RuntimeError("injected fault: reference generator call %d" % self.ref_calls)
        return dinucleotide_shuffle(X, n=n, random_state=random_state)

    def rule(self, module, grad_input, grad_output):
        from tangermeme.deep_lift_shap import _nonlinear
        self.bwd_calls += 1
        if self.bwd_fail is not None and self.bwd_calls == self.bwd_fail:
            raise RuntimeError("injected fault: backward hook call %d" % self.bwd_calls)
        return _nonlinear(module, grad_input, grad_output)


def api_events(seed):
    """name -> callable(model, faults) performing ONE API call (returns its result)."""
    from tangermeme.ablate import ablate
    from tangermeme.deep_lift_shap import deep_lift_shap
    from tangermeme.design import greedy_substitution
    from tangermeme.ism import saturation_mutagenesis
    from tangermeme.marginalize import marginalize
    from tangermeme.predict import predict
    from tangermeme.product import apply_pairwise, apply_product
    from tangermeme.space import space
    from tangermeme.variant_effect import deletion_effect, insertion_effect, substitution_effect
    X, R = data(seed)
    A1 = torch.tensor([[1.0], [2.0], [3.0]], dtype=torch.float64)
    dls = dict(device="cpu", n_shuffles=2, batch_size=3)

    def ops(f):
        return {torch.nn.ReLU: f.rule}
    ev = collections.OrderedDict()
    ev["predict"] = lambda m, f: predict(m, X, batch_size=2, device="cpu")
    ev["predict_args"] = lambda m, f: predict(m, X, args=(A1,), batch_size=2, device="cpu")
    ev["dls_generator"] = lambda m, f: deep_lift_shap(m, X, references=f.references, random_state=0, additional_nonlinear_ops=ops(f), **dls)
    ev["dls_tensor"] = lambda m, f: deep_lift_shap(m, X, references=R, additional_nonlinear_ops=ops(f), device="cpu", batch_size=4, target=1)
    ev["dls_hypothetical_args"] = lambda m, f: deep_lift_shap(m, X, args=(A1,), references=f.references, random_state=1, hypothetical=True,
                                                              additional_nonlinear_ops=ops(f), **dls)
    # a call WITHOUT custom rules and one with a custom rule that changes the result (legal use of additional_nonlinear_ops):
    # whatever one call configures must not leak into the next call
    def scaled_rule(module, grad_input, grad_output):
        from tangermeme.deep_lift_shap import _nonlinear
        return (_nonlinear(module, grad_input, grad_output)[0] * 2.0,)
    ev["dls_plain"] = lambda m, f: deep_lift_shap(m, X, references=R, device="cpu", batch_size=4)
    ev["dls_custom_rule"] = lambda m, f: deep_lift_shap(m, X, references=R, device="cpu", batch_size=4, additional_nonlinear_ops={torch.nn.ReLU: scaled_rule},
                                                        warning_threshold=1e9)
    ev["ism"] = lambda m, f: saturation_mutagenesis(m, X[:1], batch_size=7, device="cpu")
    ev["marginalize"] = lambda m, f: marginalize(m, X, "AC", device="cpu")
    ev["marginalize_dls"] = lambda m, f: marginalize(m, X[:2], "AC", func=deep_lift_shap, references=f.references, random_state=0,
                                                     additional_nonlinear_ops=ops(f), **dls)
    ev["ablate"] = lambda m, f: ablate(m, X, 1, 6, n=2, random_state=0, device="cpu")
    ev["ablate_dls"] = lambda m, f: ablate(m, X[:1], 1, 6, n=2, random_state=0, func=deep_lift_shap, references=f.references,
                                           additional_nonlinear_ops=ops(f), **dls)
    ev["space"] = lambda m, f: space(m, X, ["A", "CG"], [[1], [2]], device="cpu")
    ev["substitution_effect"] = lambda m, f: substitution_effect(m, X, torch.tensor([[0, 2, 1], [2, 5, 3]]), device="cpu")
    ev["deletion_effect"] = lambda m, f: deletion_effect(m, torch.cat([X, X[:, :, :2]], dim=-1), torch.tensor([[0, 2], [1, 3], [1, 4], [2, 0], [2, 1]]), device="cpu")
    ev["insertion_effect"] = lambda m, f: insertion_effect(m, X, torch.tensor([[0, 2, 1], [1, 5, 3]]), device="cpu")
    ev["apply_product"] = lambda m, f: apply_product(predict, m, X, [A1[:2], A1], batch_size=4, device="cpu")
    ev["apply_pairwise"] = lambda m, f: apply_pairwise(predict, m, X, [A1, A1 * 2], batch_size=4, device="cpu")
    ev["greedy_substitution"] = lambda m, f: greedy_substitution(m, X[:1], ["ACG", "T"], y=torch.tensor([[1.0, -1.0]], dtype=torch.float64),
                                                                 max_iter=2, device="cpu")
    # invalid inputs
    XN = X.clone()
    XN[1, :, 3] = 0
    ev["INVALID:dls_N_column"] = lambda m, f: deep_lift_shap(m, XN, random_state=0, **dls)
    ev["INVALID:dls_target_out_of_range"] = lambda m, f: deep_lift_shap(m, X, references=R, target=7, device="cpu")
    ev["INVALID:dls_args_wrong_leading_dim"] = lambda m, f: deep_lift_shap(m, X, args=(A1[:2],), random_state=0, **dls)
    ev["INVALID:dls_reference_tensor_wrong_shape"] = lambda m, f: deep_lift_shap(m, X, references=R[:2], device="cpu")
    ev["INVALID:dls_reference_tensor_wrong_length"] = lambda m, f: deep_lift_shap(m, X, references=R[:, :, :, :5], device="cpu")
    ev["INVALID:dls_randomstate_object"] = lambda m, f: deep_lift_shap(m, X, random_state=numpy.random.RandomState(0), **dls)
    # dtype different from the model's (the model must not be re-typed), warnings escalated to errors (a fault between the backward
    # pass and the attribution projection), a target that yields a 2-D output slice
    ev["INVALID:dls_float32_input_float64_model"] = lambda m, f: deep_lift_shap(m, X.float(), references=R.float(), device="cpu")
    ev["INVALID:dls_float16_input"] = lambda m, f: deep_lift_shap(m, X.half(), references=R.half(), device="cpu")

    def warn_as_error(m, f):
        import warnings
        with warnings.catch_warnings():
            warnings.simplefilter("error", RuntimeWarning)
            return deep_lift_shap(m, X, references=R, device="cpu", warning_threshold=-1.0, batch_size=4)
    ev["INVALID:dls_convergence_warning_as_error"] = warn_as_error
    ev["INVALID:dls_target_slice"] = lambda m, f: deep_lift_shap(m, X, references=R, device="cpu", target=slice(0, 2))
    ev["INVALID:predict_args_mismatch"] = lambda m, f: predict(m, X, args=(A1[:2],), device="cpu")
    ev["INVALID:ism_bad_args"] = lambda m, f: saturation_mutagenesis(m, X, args=(A1[:1],), device="cpu")
    ev["INVALID:marginalize_motif_too_long"] = lambda m, f: marginalize(m, X, "ACGTACGTACGT", device="cpu")
    ev["INVALID:ablate_dls_N_column"] = lambda m, f: ablate(m, XN, 1, 6, n=2, random_state=0, func=deep_lift_shap, **dls)
    return ev


def summarise(o):
    if isinstance(o, torch.Tensor):
        return hashlib.sha256(o.detach().double().numpy().tobytes()).hexdigest()[:16]
    if isinstance(o, (list, tuple)):
        return tuple(summarise(x) for x in o)
    return repr(o)


class CustomFault(Exception):
    pass


# what the k-th forward call raises: an ordinary error, torch's out-of-memory error, an interrupt from the keyboard (a BaseException: the
# usual way a long attribution run ends early in a notebook), StopIteration, a caller-defined exception class
FWD_EXC = {"fwd": RuntimeError, "fwd_oom": torch.cuda.OutOfMemoryError, "fwd_interrupt": KeyboardInterrupt, "fwd_stopiter": StopIteration,
           "fwd_custom": CustomFault}


def run_event(model, events, ev):
    """ev = (name, seam, k).  Returns ('ok'|'raise', summary, counts)."""
    name, seam, k = ev
    f = Faults()
    model.calls = 0
    model.fail_at = k if seam in FWD_EXC else None
    model.fail_exc = FWD_EXC.get(seam, RuntimeError)
    f.ref_fail = k if seam == "ref" else None
    f.bwd_fail = k if seam == "bwd" else None
    try:
        st, val = call(events[name], model, f)
    except BaseException as e:  # noqa: BLE001 - KeyboardInterrupt and friends injected by the harness itself
        if seam not in FWD_EXC or not isinstance(e, FWD_EXC[seam]):
            raise
        st, val = "raise", "%s: %s" % (type(e).__name__, str(e)[:120])
    model.fail_at = None
    counts = dict(fwd=model.calls, ref=f.ref_calls, bwd=f.bwd_calls)
    model.calls = 0
    return st, (summarise(val) if st == "ok" else val), counts


def canon(model, seed):
    """canonical behavioural state of the model"""
    hooks = []
    for n, m in model.named_modules():
        h = (len(m._forward_hooks), len(m._forward_pre_hooks), len(m._backward_hooks), len(getattr(m, "_backward_pre_hooks", {})),
             len(getattr(m, "_forward_hooks_with_kwargs", {})))
        if any(h):
            hooks.append((n, h))
    if VARIANT == "lazy_module" and model.net[0].conv is None:
        with torch.no_grad():
            model.net[0](data(seed + 100)[0][:1])          # built here (deterministically) if no call has built it yet
    sd = hashlib.sha256()
    for k, v in model.state_dict().items():
        sd.update(k.encode())
        sd.update(v.detach().cpu().numpy().tobytes())
    rg = tuple(p.requires_grad for p in model.parameters())
    # modules the caller keeps in eval mode must not be switched (back) to training mode; the user's hook must survive
    frozen = tuple(n for n, m in model.named_modules() if isinstance(m, torch.nn.BatchNorm1d) and m.training)
    if VARIANT == "bn_train":
        frozen = ()       # switching a training-mode module to eval is what the calls document; only the reverse is a leak
    user_hooks = tuple(n for n, m in model.named_modules() if any(h is _user_hook for h in m._forward_hooks.values()))
    rg = (rg, ("eval_module_switched_to_training", frozen), ("user_hook_on", user_hooks))
    probe = []
    X, _ = data(seed + 100)
    was = model.training
    model.eval()
    for B in (2, 3):
        x = X[:B].clone().requires_grad_(True)
        try:
            y = model(x)
            g = torch.autograd.grad(y[:, 0].sum() + 2 * y[:, 1].sum(), x)[0]
            probe.append((summarise(y), summarise(g)))
        except Exception as e:  # noqa: BLE001
            probe.append(("probe raises", "%s: %s" % (type(e).__name__, str(e)[:80])))
    model.calls = 0
    return (tuple(hooks), sd.hexdigest()[:16], rg, tuple(probe))


def explain(c0, c1):
    out = []
    if c0[0] != c1[0]:
        out.append("leftover hooks %s" % (c1[0],))
    if c0[1] != c1[1]:
        out.append("parameters/buffers changed")
    if c0[2] != c1[2]:
        out.append("requires_grad flags / frozen-module modes / user hooks changed: %s" % (c1[2][1:],))
    if c0[3] != c1[3]:
        out.append("probe outputs / ordinary gradients changed: %s" % (c1[3],))
    return "; ".join(out)


def bound(tier):
    return ("every API event fault-free + every single fault (all k) + invalid inputs from the pristine state; BFS over states; differential oracle on all ordered pairs of a reduced alphabet (first/middle/last k per seam)"
            if tier == "quick" else
            "every API event fault-free + every single fault (all k) + invalid inputs; BFS depth 4; differential oracle on all ordered pairs of the full alphabet and all triples of a reduced alphabet")


def shards(tier, seed):
    return [dict(name="crash_points_and_bfs", kind="bfs", variant="plain", weight=100),
            dict(name="crash_points_and_bfs/shared_activation_object", kind="bfs", variant="shared_act", weight=100),
            dict(name="crash_points_and_bfs/batchnorm_in_training_mode", kind="bfs", variant="bn_train", weight=100),
            dict(name="crash_points_and_bfs/lazily_built_state", kind="bfs", variant="lazy_cache", weight=100),
            dict(name="crash_points_and_bfs/legacy_backward_hook_removed", kind="bfs", variant="legacy_hook", weight=100),
            dict(name="crash_points_and_bfs/submodule_built_in_first_forward", kind="bfs", variant="lazy_module", weight=100)] + \
           [dict(name="differential/%d" % p, kind="diff", part=p, parts=12, variant="plain", weight=300) for p in range(12)] + \
           [dict(name="differential_shared_act/%d" % p, kind="diff", part=p, parts=3, variant="shared_act", weight=300) for p in range(3)]


def alphabet(events, seed, reduced=False):
    """measure K per seam in a fault-free run on a pristine copy, then list all (event, seam, k)."""
    out = []
    pristine = Shared(seed)
    for name in events:
        m = copy.deepcopy(pristine)
        st, _, counts = run_event(m, events, (name, None, None))
        out.append((name, None, None))
        if name.startswith("INVALID"):
            continue
        for seam in ("fwd", "ref", "bwd"):
            K = counts[seam]
            ks = list(range(1, K + 1))
            if reduced and K > 3:
                ks = sorted(set([1, (K + 1) // 2, K]))
            for k in ks:
                out.append((name, seam, k))
            if seam == "fwd" and K >= 1:
                # other exception types at the first and the last forward call
                for seam2 in ("fwd_oom", "fwd_interrupt", "fwd_stopiter", "fwd_custom"):
                    for k in sorted(set([1, K])):
                        out.append((name, seam2, k))
    return out


def run_bfs(rec, tier, seed):
    events = api_events(seed)
    pristine = Shared(seed)
    c0 = canon(copy.deepcopy(pristine), seed)
    alpha = alphabet(events, seed)
    rec.count("alphabet_size", len(alpha))
    rec.count("fault_events", sum(1 for e in alpha if e[1] is not None))

    def build(hist):
        m = copy.deepcopy(pristine)
        for ev in hist:
            run_event(m, events, ev)
        return m
    seen = {c0: []}
    frontier = collections.deque([[]])
    max_depth = 2 if tier == "quick" else 4
    reported = set()
    while frontier:
        hist = frontier.popleft()
        if len(hist) >= max_depth:
            continue
        c_src = canon(build(hist), seed) if hist else c0
        for ev in alpha:
            m = build(hist)
            st, val, counts = run_event(m, events, ev)
            c1 = canon(m, seed)
            rec.count("transitions")
            rec.case(1, int(ev[1] is not None or ev[0].startswith("INVALID")))
            if ev[0].startswith("INVALID") and st == "ok" and not hist:
                rec.note("invalid-input event %s did not raise" % ev[0])
            if c1 != c_src:        # a transition that CHANGES the model state (from a damaged state only further damage is reported)
                kind = "invalid_input" if ev[0].startswith("INVALID") else ("fault_" + ev[1] if ev[1] else "fault_free")
                base = ev[0].split(":")[-1].split("_")[0]
                sig = "model_changed:%s:%s" % (kind, "deep_lift_shap" if "dls" in ev[0] else ev[0])
                if (sig, len(hist)) not in reported or len(reported) < 40:
                    reported.add((sig, len(hist)))
                    rec.violation(sig, dict(fn="history", history=[list(h) for h in hist], event=list(ev), seed=seed, variant=VARIANT),
                                  expected="model state identical to the state before the call", observed=explain(c_src, c1),
                                  msg="after the call (%s: %s) the model differs from before" % (st, str(val)[:80]))
            if c1 not in seen:
                seen[c1] = hist + [ev]
                frontier.append(hist + [ev])
            rec.outcome(c1)
    rec.count("states", len(seen))
    rec.observe(sorted(str(k) for k in seen)[:3], len(alpha))
    rec.sample(dict(kind="bfs", alphabet=len(alpha), events=list(events)[:30], example_fault_events=[list(e) for e in alpha if e[1]][:6], states=len(seen)))


def run_diff(rec, sh, tier, seed):
    """history independence without trusting the fingerprint: last call's RESULT on the shared model == on a fresh copy."""
    events = api_events(seed)
    pristine = Shared(seed)
    # reference results first, in a process in which no other call has been made yet (state kept by the LIBRARY between calls - e.g. a
    # module-level table - would otherwise already be in place when the reference is taken)
    lasts = [(name, None, None) for name in events if not name.startswith("INVALID")]     # fault-free calls whose results are compared
    lasts.sort(key=lambda e: e[0] != "dls_plain")      # the call that configures nothing itself comes first after every history
    fresh = {}
    for ev in lasts:
        fresh[ev] = run_event(copy.deepcopy(pristine), events, ev)[:2]
    red = alphabet(events, seed, reduced=True)
    full = alphabet(events, seed)
    firsts = red if tier == "quick" else full
    hists = [[a] for a in firsts]
    if tier != "quick":
        small = [e for e in red if e[0] in ("predict", "dls_generator", "INVALID:dls_N_column", "ablate_dls", "greedy_substitution", "INVALID:dls_target_out_of_range")]
        hists += [[a, b] for a in small for b in small]
    hists = hists[sh["part"]::sh["parts"]]
    for hist in hists:
        m = copy.deepcopy(pristine)
        for ev in hist:
            run_event(m, events, ev)
        for ev in lasts:
            m2 = copy.deepcopy(m)        # copy the (possibly damaged) shared model so that every last call sees the same history
            st, val, _ = run_event(m2, events, ev)
            rec.case(1, 1)
            rec.count("histories")
            if (st, val) != fresh[ev]:
                first = hist[-1]
                kind = "invalid_input" if first[0].startswith("INVALID") else ("fault_" + first[1] if first[1] else "fault_free")
                rec.violation("result_depends_on_history:after_%s:%s" % (kind, "deep_lift_shap" if "dls" in first[0] else first[0]),
                              dict(fn="history", history=[list(h) for h in hist], event=list(ev), seed=seed, variant=VARIANT), expected=fresh[ev][1], observed=val,
                              msg="the same call gives a different result on the shared model than on a fresh copy")
        rec.observe([list(h) for h in hist])
    rec.sample(dict(kind="differential", histories=len(hists), last_calls=len(lasts), example=[list(h) for h in hists[0]] if hists else None))


def run_shard(sh, tier, seed):
    global VARIANT
    VARIANT = sh.get("variant", "plain")
    rec = Recorder(PID, sh["name"])
    if sh["kind"] == "bfs":
        run_bfs(rec, tier, seed)
    else:
        run_diff(rec, sh, tier, seed)
    return rec.result()


def replay(v):
    global VARIANT
    c = v["case"]
    VARIANT = c.get("variant", "plain")
    seed = c.get("seed", 0)
    events = api_events(seed)
    pristine = Shared(seed)
    c0 = canon(copy.deepcopy(pristine), seed)
    m = copy.deepcopy(pristine)
    for ev in c["history"]:
        run_event(m, events, tuple(ev))
    ev = tuple(c["event"])
    if v["sig"].startswith("model_changed"):
        st, val, _ = run_event(m, events, ev)
        c1 = canon(m, seed)
        return c1 == c0, "history %s then %s (%s): %s" % (c["history"], list(ev), st, explain(c0, c1) or "model state unchanged")
    st, val, _ = run_event(m, events, ev)
    f = run_event(copy.deepcopy(pristine), events, ev)[:2]
    return (st, val) == f, "history %s then %s: shared %s / fresh %s" % (c["history"], list(ev), str(val)[:60], str(f[1])[:60])
