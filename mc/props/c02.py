"""C02 - shuffles preserve composition (mono- or di-nucleotide), flanks and determinism.

Model checking of the shuffles' internal randomness: the REAL function bodies are executed with their
random source replaced by an explorer choice point, and EVERY outcome of every internal permutation is
enumerated (choice-point DFS), for every sequence / region of the small scope.
  * ersatz.shuffle: RandomState subclass whose .shuffle() is a choice point (all (end-start)! permutations).
  * ersatz._dinucleotide_shuffle + _fast_shuffle.py_func under re-bound globals: numpy.random.permutation(k)
    becomes choose(k!); the successor table is poisoned beyond each character's count and the walk's
    counters are checked after every execution (walk completeness).
Conformance (model traces vs implementation): for every sequence of the conformance set and seeds 0..K the
COMPILED dinucleotide_shuffle output must be a member of the enumerated outcome set.
Plus: compiled functions on a sweep of all lengths 1..300 (and 1000, 40000) - dtype-width boundaries -, regions,
n, seeds: invariants, determinism, per-example seeding.
"""
import collections
import itertools
import math

import numpy
import torch

from mc.common import all_codes, call, decode, ohe
from mc.explorer import explore_dfs
from mc.report import Recorder
from mc.shims import EnumRandom, NumpyShim, nth_perm, rebind

PID = "C02"
LEVEL = "model_checking"
DETERMINISM_IS_PROPERTY = True
RULE = ("states = decision-tree nodes of the explored executions (one per internal random draw outcome prefix), "
        "transitions = choices taken; an execution = one complete run of the real shuffle body for one "
        "(sequence, region, n) with one outcome of every internal permutation; non-trivial = executions whose "
        "input admits more than one outcome; traces validated = compiled runs whose output was checked for "
        "membership in the enumerated outcome set")
ASSUMPTIONS = ["py_func executes the same source as the compiled kernel; conformance is checked by outcome-set membership of compiled outputs",
               "numpy.random.permutation(k) is uniform over the k! permutations enumerated", "CPU only"]


def bound(tier):
    return ("mono: L<=5 all perms; di: all sequences L<=6 (A=2,3), L<=5 (A=4), all regions; conformance seeds 0..9; length sweep 1..300"
            if tier == "quick" else
            "mono: L<=6 (regions<=5) all perms, n<=3; di: all sequences L<=8 (A=2), L<=7 (A=3,4), all regions, n_shuffles 2 for L<=5; conformance seeds 0..19; length sweep 1..300,1000,40000")


def shards(tier, seed):
    out = []
    for A in (2, 3, 4):
        out.append(dict(name="mono/A%d" % A, kind="mono", A=A, weight=A ** 5 * 100))
        Lmax = (6 if A < 4 else 5) if tier == "quick" else (8 if A == 2 else 7)
        for L in range(2, Lmax + 1):
            nsh = A if A ** L > 2000 else 1
            for k in range(nsh):
                out.append(dict(name="di/A%d/L%d/%d" % (A, L, k), kind="di", A=A, L=L, part=k, parts=nsh, weight=A ** L * L * 20 // nsh))
    out.append(dict(name="sweep/mono", kind="sweep_mono", weight=3000))
    out.append(dict(name="sweep/di", kind="sweep_di", weight=6000))
    out.append(dict(name="variants", kind="variants", weight=5000))
    out.append(dict(name="seeds_and_ends", kind="seeds_and_ends", weight=1500))
    return out


def pairs(codes):
    return collections.Counter(zip(codes[:-1], codes[1:]))


# ------------------------------------------------------------------------------------------- mono
def run_mono(rec, sh, tier, seed):
    from tangermeme import ersatz
    A = sh["A"]
    Lmax = 5 if tier == "quick" else 6

    class EnumRS(numpy.random.RandomState):
        def __init__(self, ch):
            super().__init__(0)
            self.ch = ch

        def shuffle(self, x):
            k = len(x)
            p = nth_perm(k, self.ch.choose(math.factorial(k), deviation=True)) if k > 1 else numpy.arange(k)
            x[:] = x[p]

    for L in range(1, Lmax + 1):
        codes = all_codes(A, L)
        X = ohe(codes, A)
        Xc = X.clone()
        regions = [(s, e) for s in range(L) for e in range(s + 1, L + 1) if e - s <= 5] + [(0, -1), (1, -2)] if L > 1 else [(0, 1), (0, -1)]
        for (s, e) in regions:
            e_ = e if e >= 0 else L + 1 + e
            if e_ <= s:
                continue
            W = e_ - s
            for n in (1, 2, 3):
                if math.factorial(W) ** n > 800:
                    continue

                def run(ch):
                    return call(ersatz.shuffle, X, start=s, end=e, n=n, random_state=EnumRS(ch))
                outs = set()
                n_exec = 0
                for choices, (st, val) in explore_dfs(run):
                    n_exec += 1
                    rec.count("transitions", len(choices))
                    case = dict(fn="shuffle", A=A, L=L, start=s, end=e, n=n, choices=choices)
                    rec.case(len(codes), len(codes) if W > 1 else 0)
                    if st != "ok":
                        rec.violation("shuffle:raises", case, observed=val)
                        continue
                    if tuple(val.shape) != (len(codes), n, A, L):
                        rec.violation("shuffle:shape", case, observed=list(val.shape))
                        continue
                    g, ok = decode(val)
                    if not ok:
                        rec.violation("shuffle:not_one_hot", case)
                        continue
                    flank = numpy.ones(L, bool)
                    flank[s:e_] = False
                    if not (g[:, :, flank] == codes[:, None, flank]).all():
                        rec.violation("shuffle:flank_changed", case)
                        continue
                    if not (numpy.sort(g[:, :, s:e_], axis=2) == numpy.sort(codes[:, None, s:e_], axis=2)).all():
                        rec.violation("shuffle:composition_changed", case)
                        continue
                    # the permutation applied is exactly the one the random source produced, shuffle by shuffle
                    for j in range(n):
                        p = nth_perm(W, choices[j]) if W > 1 else numpy.arange(W)
                        if not (g[:, j, s:e_] == codes[:, s:e_][:, p]).all():
                            rec.violation("shuffle:not_the_drawn_permutation", case)
                            break
                    outs.add(g.tobytes())
                    if not torch.equal(X, Xc):
                        rec.violation("shuffle:input_modified", case)
                        X = Xc.clone()
                rec.count("states", n_exec)
                rec.outcome((A, L, s, e, n, len(outs)))
                if len(outs) != math.factorial(W) ** n and A ** L > 1:
                    # all permutation outcomes give distinct batches as soon as the batch contains a sequence
                    # with distinct characters at all region positions (true when A >= W); informational only
                    rec.count("regions_with_coinciding_outcomes")
        # real seeds: determinism, RandomState object vs int
        for (s, e) in [(0, -1), (0, L), (L // 2, L)]:
            if (e if e >= 0 else L + 1 + e) <= s:
                continue
            for sd in (0, 1, seed + 2):
                st1, a = call(ersatz.shuffle, X, start=s, end=e, n=2, random_state=sd)
                st2, b = call(ersatz.shuffle, X, start=s, end=e, n=2, random_state=sd)
                st3, c = call(ersatz.shuffle, X, start=s, end=e, n=2, random_state=numpy.random.RandomState(sd))
                rec.case(1, 1)
                rec.count("traces_validated_against_impl")
                if not (st1 == st2 == st3 == "ok") or not torch.equal(a, b) or not torch.equal(a, c):
                    rec.violation("shuffle:not_deterministic", dict(fn="shuffle", A=A, L=L, start=s, end=e, seed=sd))
                else:
                    rec.observe(a.sum(), decode(a)[0][:3])
    # invalid regions must raise
    X = ohe(all_codes(A, 4), A)
    for (s, e) in [(-1, 3), (2, 2), (3, 1), (0, 5), (0, 9), (4, 4)]:
        st, v = call(ersatz.shuffle, X, start=s, end=e, n=1, random_state=0)
        rec.case(1, 1)
        if st == "ok":
            rec.violation("shuffle:accepts_invalid_region", dict(fn="shuffle", A=A, L=4, start=s, end=e))
    rec.sample(dict(kind="mono", A=A, L="1..%d" % Lmax, regions="all", outcomes="all (end-start)!^n permutations"))


# ------------------------------------------------------------------------------------------- di
def di_outcomes(E, codes, A, n_shuffles, rec=None, case=None):
    """Explore every outcome of the internal permutations of _dinucleotide_shuffle on one sequence.
    Returns (set of outcome tuples, n_executions, n_choice_points)."""
    X = ohe(numpy.array([codes]), A)[0]
    outs = set()
    stats = dict(execs=0, trans=0, exc=0)

    def run(ch):
        g = dict(E.__dict__)
        g["numpy"] = NumpyShim(random=EnumRandom(ch))
        fs_py = rebind(E._fast_shuffle, g)
        info = {}

        def fast_shuffle(n_shuffles_, n_chars, idxs, next_idxs, counts, counters, out, rs):
            for c in range(n_chars):
                next_idxs[c, counts[c]:] = -9            # poison: reading a stranded slot is visible
            fs_py(n_shuffles_, n_chars, idxs, next_idxs, counts, counters, out, rs)
            info["counters"] = counters.copy()
            info["counts"] = counts.copy()
            info["last"] = int(idxs[-1])
        g["_fast_shuffle"] = fast_shuffle
        f = rebind(E._dinucleotide_shuffle, g)
        st, val = call(f, X, n_shuffles=n_shuffles, random_state=0)
        return st, val, info

    for choices, (st, val, info) in explore_dfs(run):
        stats["execs"] += 1
        stats["trans"] += len(choices)
        if st != "ok":
            stats["exc"] += 1
            if "identical" in str(val) or len(codes) <= 2:
                continue      # refusal (all shuffles identical / region of <= 2 positions): "whenever it returns at all"
            if rec is not None:
                rec.violation("dinucleotide:raises", dict(case, choices=choices), observed=val)
            continue
        g_, ok = decode(val)
        if rec is not None:
            c2 = dict(case, choices=choices)
            if not ok or g_.shape != (n_shuffles, len(codes)):
                rec.violation("dinucleotide:not_one_hot", c2)
                continue
            cnt, cts = info["counters"], info["counts"]
            for j in range(n_shuffles):
                out = tuple(int(v) for v in g_[j])
                if pairs(out) != pairs(tuple(codes)) or out[0] != codes[0] or out[-1] != codes[-1]:
                    rec.violation("dinucleotide:pairs_not_preserved", c2, expected="".join("ACGT"[c] for c in codes),
                                  observed="".join("ACGT"[c] for c in out))
                    break
                # walk completeness: every transition consumed (the last character's counter may be one short:
                # the final visit consumes no outgoing edge) - in total L-1 edges, each character exactly its count
                if not (cnt[j] == cts).all():
                    rec.violation("dinucleotide:walk_incomplete", c2, expected=cts, observed=cnt[j])
                    break
        outs.add(tuple(tuple(int(v) for v in row) for row in g_))
    return outs, stats


def run_di(rec, sh, tier, seed):
    from tangermeme import ersatz as E
    A, L = sh["A"], sh["L"]
    codes_all = all_codes(A, L)[sh["part"]::sh["parts"]]
    K = 10 if tier == "quick" else 20
    for codes in codes_all:
        codes = tuple(int(c) for c in codes)
        # every region [s, e): the walk itself only sees the region, so explore the region sequences once
        case = dict(fn="_dinucleotide_shuffle", A=A, seq="".join("ACGT"[c] for c in codes), n_shuffles=1)
        outs, st = di_outcomes(E, codes, A, 1, rec, case)
        rec.case(st["execs"], st["execs"] if len(outs) > 1 else 0)
        rec.count("states", st["execs"])
        rec.count("transitions", st["trans"])
        rec.outcome((codes, len(outs)))
        if L <= 5 and tier != "quick" or L <= 4:
            outs2, st2 = di_outcomes(E, codes, A, 2, rec, dict(case, n_shuffles=2))
            rec.case(st2["execs"], st2["execs"] if len(outs2) > 1 else 0)
            rec.count("states", st2["execs"])
            rec.count("transitions", st2["trans"])
            # second shuffle starts from the permuted successor table (non-initial state): its outcomes must
            # still be members of the single-shuffle outcome set
            single = {o[0] for o in outs}
            for o in outs2:
                if o[0] not in single or o[1] not in single:
                    rec.violation("dinucleotide:second_shuffle_outside_outcome_set", dict(case, n_shuffles=2), observed=o)
                    break
        # conformance: compiled output for real seeds is a member of the enumerated set
        X = ohe(numpy.array([codes]), A)
        Xc = X.clone()
        single = {o[0] for o in outs}
        for sd in range(K):
            stc, val = call(E.dinucleotide_shuffle, X, start=0, end=L, n=1, random_state=sd)
            rec.count("traces_validated_against_impl")
            if stc != "ok":
                if len(codes) <= 2:
                    rec.count("refused_short")
                    break
                rec.violation("dinucleotide:compiled_raises", dict(case, seed=sd), observed=val)
                break
            g_, ok = decode(val)
            got = tuple(int(v) for v in g_[0, 0])
            if not ok or got not in single:
                rec.violation("dinucleotide:compiled_outside_outcome_set", dict(case, seed=sd),
                              expected=sorted("".join("ACGT"[c] for c in o) for o in single)[:8],
                              observed="".join("ACGT"[c] for c in got))
                break
        if not torch.equal(X, Xc):
            rec.violation("dinucleotide:input_modified", case)
        rec.observe(codes, sorted(single)[:4])
    rec.sample(dict(kind="di", A=A, L=L, sequences=len(codes_all), example=dict(seq="".join("ACGT"[c] for c in codes),
                                                                                  outcomes=len(outs), executions=st["execs"])))


# ------------------------------------------------------------------------------------------- sweeps on compiled code
def _longseq(L, A, k):
    i = numpy.arange(L)
    return ((i * i * (k + 3) + i // 3 + (i % 7) * (k + 1)) % A).astype(numpy.int64)


def run_sweep_di(rec, tier, seed):
    from tangermeme import ersatz as E
    lens = list(range(2, 301)) + ([1000, 70003] if tier == "quick" else [1000, 40000, 70003, (1 << 20) + 7])
    for L in lens:
        A = 4 if L % 3 else 3
        B = 2 if L <= 300 else 1
        codes = numpy.stack([_longseq(L, A, k) for k in range(B)])
        X = ohe(codes, A)
        Xc = X.clone()
        regs = [(0, L), (0, -1)]
        if L >= 6:
            regs += [(2, L - 1), (1, L // 2 + 1), (L - 3, L)]
        if L > 300:
            regs = [(0, L), (3, L - 2)]
        for (s, e) in regs:
            e_ = e if e >= 0 else L + e
            for n in ((1, 3) if L <= 300 else (2,)):
                for sd in (0, seed + 5):
                    case = dict(fn="dinucleotide_shuffle", A=A, L=L, start=s, end=e, n=n, seed=sd, generator="_longseq")
                    st, val = call(E.dinucleotide_shuffle, X, start=s, end=e, n=n, random_state=sd)
                    rec.case(1, 1)
                    if st != "ok":
                        if "identical" in str(val) or e_ - s <= 2:
                            rec.count("refused_identical")
                            continue
                        rec.violation("dinucleotide:compiled_raises", case, observed=val)
                        continue
                    if tuple(val.shape) != (B, n, A, L):
                        rec.violation("dinucleotide:shape", case, observed=list(val.shape))
                        continue
                    g, ok = decode(val)
                    if not ok:
                        rec.violation("dinucleotide:not_one_hot", case)
                        continue
                    bad = False
                    for b in range(B):
                        for j in range(n):
                            o = g[b, j]
                            if not (o[:s] == codes[b, :s]).all() or not (o[e_:] == codes[b, e_:]).all():
                                rec.violation("dinucleotide:flank_changed", dict(case, row=b, shuffle=j))
                                bad = True
                                break
                            if pairs(tuple(o[s:e_])) != pairs(tuple(codes[b, s:e_])) or o[s] != codes[b, s] or o[e_ - 1] != codes[b, e_ - 1]:
                                rec.violation("dinucleotide:pairs_not_preserved", dict(case, row=b, shuffle=j))
                                bad = True
                                break
                        if bad:
                            break
                    if bad:
                        continue
                    st2, val2 = call(E.dinucleotide_shuffle, X, start=s, end=e, n=n, random_state=sd)
                    if st2 != "ok" or not torch.equal(val, val2):
                        rec.violation("dinucleotide:not_deterministic", case)
                    # the seed is an integer whatever its integer type: numpy integers give the same deterministic result
                    if L <= 40:
                        for ityp in (numpy.int64, numpy.int32):
                            st4, v4 = call(E.dinucleotide_shuffle, X, start=s, end=e, n=n, random_state=ityp(sd))
                            st5, v5 = call(E.dinucleotide_shuffle, X, start=s, end=e, n=n, random_state=ityp(sd))
                            if st4 != "ok" or st5 != "ok" or not torch.equal(v4, v5) or not torch.equal(v4, val):
                                rec.violation("dinucleotide:not_deterministic:numpy_integer_seed", dict(case, seed_type=ityp.__name__))
                    # per-example seeding: row i == shuffling row i alone with seed + i
                    for b in range(B):
                        st3, v3 = call(E.dinucleotide_shuffle, X[b:b + 1], start=s, end=e, n=n, random_state=sd + b)
                        if st3 != "ok" or not torch.equal(v3[0], val[b]):
                            rec.violation("dinucleotide:row_depends_on_batch", dict(case, row=b))
                    if not torch.equal(X, Xc):
                        rec.violation("dinucleotide:input_modified", case)
                        X = Xc.clone()
                    rec.count("traces_validated_against_impl")
                    rec.observe(L, s, e, n, sd, int(g.sum()))
    rec.sample(dict(kind="sweep_di", lengths="2..300,1000(,40000)", regions="whole, default end=-1, interior, tail", n="1,3", seeds=2))


def run_sweep_mono(rec, tier, seed):
    from tangermeme import ersatz as E
    lens = list(range(1, 301)) + [1000, 40000, 70001, (1 << 20) + 5]
    for L in lens:
        A = 4 if L % 2 else 5
        codes = numpy.stack([_longseq(L, A, k) for k in range(2)])
        X = ohe(codes, A)
        Xc = X.clone()
        regs = [(0, -1), (0, L)] + ([(1, L - 1), (L // 2, -2), (0, -3)] if L >= 5 else [])
        for (s, e) in regs:
            e_ = e if e >= 0 else L + 1 + e
            if e_ <= s:
                continue
            for sd in (0, seed + 3):
                case = dict(fn="shuffle", A=A, L=L, start=s, end=e, n=2, seed=sd, generator="_longseq")
                st, val = call(E.shuffle, X, start=s, end=e, n=2, random_state=sd)
                rec.case(1, 1)
                if st != "ok":
                    rec.violation("shuffle:raises", case, observed=val)
                    continue
                g, ok = decode(val)
                if not ok or tuple(val.shape) != (2, 2, A, L):
                    rec.violation("shuffle:not_one_hot", case)
                    continue
                if not (g[:, :, :s] == codes[:, None, :s]).all() or not (g[:, :, e_:] == codes[:, None, e_:]).all():
                    rec.violation("shuffle:flank_changed", case)
                    continue
                if not (numpy.sort(g[:, :, s:e_], axis=2) == numpy.sort(codes[:, None, s:e_], axis=2)).all():
                    rec.violation("shuffle:composition_changed", case)
                    continue
                st2, val2 = call(E.shuffle, X, start=s, end=e, n=2, random_state=sd)
                if st2 != "ok" or not torch.equal(val, val2):
                    rec.violation("shuffle:not_deterministic", case)
                if L <= 40:
                    st3, val3 = call(E.shuffle, X, start=s, end=e, n=2, random_state=numpy.int64(sd))
                    if st3 != "ok" or not torch.equal(val, val3):
                        rec.violation("shuffle:not_deterministic:numpy_integer_seed", case)
                if not torch.equal(X, Xc):
                    rec.violation("shuffle:input_modified", case)
                    X = Xc.clone()
                rec.count("traces_validated_against_impl")
                rec.observe(L, s, e, sd, int(g[:, :, : 50].sum()))
    rec.sample(dict(kind="sweep_mono", lengths="1..300,1000,40000", regions="default, whole, interior, negative ends"))


def run_variants(rec, tier, seed):
    """Every legal way of handing the same sequence over - storage dtype (half precision, integer, bool, double),
    verbose on/off, n - must give shuffles with the input's counts; lengths straddle the exact-integer range of
    float16 (2048) and bfloat16 (256)."""
    import io
    import contextlib
    from tangermeme import ersatz as E
    dts = [torch.float32, torch.float16, torch.bfloat16, torch.float64, torch.int8, torch.uint8, torch.int64, torch.bool]
    lens = [5, 8, 13, 300, 1200, 12000] + ([40000] if tier != "quick" else [])
    for L in lens:
        A = 4
        codes = numpy.stack([_longseq(L, A, k + seed % 3) for k in range(2)])
        if L >= 1200:
            # make one character dominate: > 2048 copies inside a 12 kb region whatever the generator does
            codes[0, ::2] = 1
        for dt in dts:
            X = ohe(codes, A, dt)
            Xc = X.clone()
            for (s, e) in [(0, L), (1, L - 1)]:
                for n in (1, 2, 5) if L <= 300 else (2,):
                    ref = None
                    for verbose in (False, True):
                        case = dict(fn="dinucleotide_shuffle", A=A, L=L, start=s, end=e, n=n, seed=seed + 2, dtype=str(dt), verbose=verbose,
                                    generator="_longseq/variants")
                        buf = io.StringIO()
                        with contextlib.redirect_stdout(buf):
                            st, val = call(E.dinucleotide_shuffle, X, start=s, end=e, n=n, random_state=seed + 2, verbose=verbose)
                        rec.case(1, 1)
                        if st != "ok":
                            if "identical" in str(val):
                                rec.count("refused_identical")
                                continue
                            if dt == torch.bool and "bool" in str(val):
                                rec.count("refused_bool")  # loud refusal of a storage type, not a wrong shuffle
                                continue
                            rec.violation("dinucleotide:compiled_raises", case, observed=val)
                            continue
                        g, ok = decode(val.to(torch.float32))
                        if not ok or tuple(val.shape) != (2, n, A, L):
                            rec.violation("dinucleotide:not_one_hot", case)
                            continue
                        if not (g[:, :, :s] == codes[:, None, :s]).all() or not (g[:, :, e:] == codes[:, None, e:]).all():
                            rec.violation("dinucleotide:flank_changed", case)
                            continue
                        bad = [(b, j) for b in range(2) for j in range(n)
                               if pairs(tuple(g[b, j, s:e])) != pairs(tuple(codes[b, s:e])) or g[b, j, s] != codes[b, s] or g[b, j, e - 1] != codes[b, e - 1]]
                        if bad:
                            rec.violation("dinucleotide:pairs_not_preserved", dict(case, row=bad[0][0], shuffle=bad[0][1]))
                            continue
                        if ref is None:
                            ref = g
                        elif not (ref == g).all():
                            # printing a warning must not change what is returned
                            rec.violation("dinucleotide:not_deterministic:verbose", case)
                        if not torch.equal(X, Xc):
                            rec.violation("dinucleotide:input_modified", case)
                            X = Xc.clone()
                        rec.count("traces_validated_against_impl")
                        rec.observe(L, str(dt), s, n, verbose, int(g[:, :, :40].sum()))
            # mononucleotide shuffle with the same storage types
            st, val = call(E.shuffle, X, n=2, random_state=seed + 1)
            rec.case(1, 1)
            case = dict(fn="shuffle", A=A, L=L, n=2, seed=seed + 1, dtype=str(dt), generator="_longseq/variants")
            if st != "ok":
                rec.violation("shuffle:raises", case, observed=val)
            else:
                g, ok = decode(val.to(torch.float32))
                if not ok or not (numpy.sort(g, axis=2) == numpy.sort(codes[:, None], axis=2)).all():
                    rec.violation("shuffle:composition_changed", case)
            if not torch.equal(X, Xc):
                rec.violation("shuffle:input_modified", case)
    rec.sample(dict(kind="variants", dtypes=[str(d) for d in dts], lengths=lens, verbose=[False, True], n=[1, 2, 5]))


def run_seeds_and_ends(rec, tier, seed):
    """Integer seeds of every magnitude and sign (negative, beyond 2^31, beyond 2^32) are seeds: two identical calls agree and row i equals
    the single-example call with seed + i.  Regions given from the right (negative start and / or end) denote the same region as their
    non-negative spelling."""
    from tangermeme import ersatz as E
    seeds = [0, 7, -1, -5, -(2 ** 31), 2 ** 31 - 1, 2 ** 31, 2 ** 31 + 5, 2 ** 32 - 1, 2 ** 32, 2 ** 40 + 3]
    for L in (6, 9, 17, 40, 300):
        A = 4
        B = 3
        codes = numpy.stack([_longseq(L, A, k + seed % 3) for k in range(B)])
        X = ohe(codes, A)
        Xc = X.clone()
        for sd in seeds:
            for fn, name in ((E.dinucleotide_shuffle, "dinucleotide"), (E.shuffle, "shuffle")):
                case = dict(fn=name, A=A, L=L, n=2, seed=sd, generator="_longseq/seeds")
                st, a = call(fn, X, n=2, random_state=sd)
                st2, b = call(fn, X, n=2, random_state=sd)
                rec.case(1, 1)
                if st != "ok" or st2 != "ok":
                    if st != "ok" and st2 != "ok" and "identical" in str(a):
                        rec.count("refused_identical")
                        continue
                    if st != "ok" and st2 != "ok" and "Seed must be" in str(a):
                        rec.count("refused_seed")           # numpy's generator refuses seeds outside [0, 2^32) loudly
                        continue
                    rec.violation(name + ":raises:seed", case, observed=a if st != "ok" else b)
                    continue
                if not torch.equal(a, b):
                    rec.violation(name + ":not_deterministic:seed_magnitude", case)
                    continue
                g, ok = decode(a)
                if not ok or not (numpy.sort(g, axis=2) == numpy.sort(codes[:, None], axis=2)).all():
                    rec.violation(name + ":composition_changed", case)
                    continue
                if name == "dinucleotide":
                    for b_ in range(1, B):
                        st3, c = call(fn, X[b_:b_ + 1], n=2, random_state=sd + b_)
                        if st3 != "ok" or not torch.equal(c[0], a[b_]):
                            rec.violation("dinucleotide:row_depends_on_batch", dict(case, row=b_))
                            break
                rec.count("traces_validated_against_impl")
        # regions spelled from the right
        if L >= 9:
            for (s, e) in ((2, L - 1), (1, L), (3, L - 3)):
                st0, ref = call(E.dinucleotide_shuffle, X, start=s, end=e, n=2, random_state=4)
                for (s2, e2) in ((s - L, e), (s - L, e - L if e < L else e), (s, e - L if e < L else e)):
                    if (s2, e2) == (s, e):
                        continue
                    case = dict(fn="dinucleotide_shuffle", A=A, L=L, start=s2, end=e2, same_region_as=[s, e], n=2, seed=4, generator="_longseq/seeds")
                    st1, got = call(E.dinucleotide_shuffle, X, start=s2, end=e2, n=2, random_state=4)
                    rec.case(1, 1)
                    if st1 != "ok":
                        rec.count("refused_region_from_the_right")          # a loud refusal is not a wrong shuffle
                        continue
                    g, ok = decode(got)
                    if not ok:
                        rec.violation("dinucleotide:not_one_hot", case)
                    elif not (g[:, :, :s] == codes[:, None, :s]).all() or not (g[:, :, e:] == codes[:, None, e:]).all():
                        rec.violation("dinucleotide:flank_changed", case)
                    elif st0 == "ok" and not torch.equal(got, ref):
                        rec.violation("dinucleotide:region_from_the_right_differs", case)
        if not torch.equal(X, Xc):
            rec.violation("dinucleotide:input_modified", dict(fn="seeds_and_ends", L=L))
    # many shuffles of a long region in ONE call (n x alphabet x length beyond 2^24 cells): every one of them a valid shuffle
    for (Lb, nb) in (((1 << 18) + 5, 17),) + ((((1 << 20) + 3, 5),) if tier != "quick" else ()):
        codes = _longseq(Lb, 4, 1 + seed % 3)[None, :]
        X = ohe(codes, 4)
        case = dict(fn="dinucleotide_shuffle", A=4, L=Lb, n=nb, seed=3, generator="_longseq/seeds", cells=nb * 4 * Lb)
        st, val = call(E.dinucleotide_shuffle, X, n=nb, random_state=3)
        rec.case(1, 1)
        if st != "ok":
            rec.violation("dinucleotide:compiled_raises", case, observed=val)
        else:
            ref_pairs = numpy.bincount(codes[0, :-1] * 4 + codes[0, 1:], minlength=16)
            for j in range(nb):
                col = val[0, j].sum(dim=0)
                if tuple(val.shape) != (1, nb, 4, Lb) or not bool((col == 1).all()) or not bool(((val[0, j] == 0) | (val[0, j] == 1)).all()):
                    rec.violation("dinucleotide:not_one_hot", dict(case, shuffle=j))
                    break
                g = val[0, j].argmax(dim=0).numpy()
                if not numpy.array_equal(numpy.bincount(g[:-1] * 4 + g[1:], minlength=16), ref_pairs) or g[0] != codes[0, 0] or g[-1] != codes[0, -1]:
                    rec.violation("dinucleotide:pairs_not_preserved", dict(case, shuffle=j))
                    break
            rec.count("traces_validated_against_impl")
        del X, val
    rec.sample(dict(kind="seeds_and_ends", seeds=[str(x) for x in seeds], lengths=[6, 9, 17, 40, 300], many_long_shuffles="n=17 x L=2^18+5"))


def run_shard(sh, tier, seed):
    rec = Recorder(PID, sh["name"])
    k = sh["kind"]
    if k == "seeds_and_ends":
        run_seeds_and_ends(rec, tier, seed)
        return rec.result()
    if k == "variants":
        run_variants(rec, tier, seed)
        return rec.result()
    if k == "mono":
        run_mono(rec, sh, tier, seed)
    elif k == "di":
        run_di(rec, sh, tier, seed)
    elif k == "sweep_di":
        run_sweep_di(rec, tier, seed)
    else:
        run_sweep_mono(rec, tier, seed)
    return rec.result()


def replay(v):
    from tangermeme import ersatz as E
    c = v["case"]
    rec = Recorder(PID, "replay")
    if c.get("fn") == "_dinucleotide_shuffle":
        codes = tuple("ACGT".index(ch) for ch in c["seq"])
        di_outcomes(E, codes, c["A"], c.get("n_shuffles", 1), rec, dict(fn=c["fn"], A=c["A"], seq=c["seq"], n_shuffles=c.get("n_shuffles", 1)))
        run_di(rec, dict(A=c["A"], L=len(codes), part=0, parts=1), "quick", 0) if len(codes) <= 4 else None
    elif c.get("generator") == "_longseq/seeds":
        run_seeds_and_ends(rec, "quick", 0)
    elif c.get("generator") == "_longseq/variants":
        run_variants(rec, "quick", c.get("seed", 2) - (2 if c["fn"] == "dinucleotide_shuffle" else 1))
    elif c.get("generator") == "_longseq" and c["fn"] == "dinucleotide_shuffle":
        run_sweep_di(rec, "quick", c.get("seed", 5) - 5 if c.get("seed", 0) >= 5 else 0)
    elif c.get("generator") == "_longseq":
        run_sweep_mono(rec, "quick", 0)
    else:
        run_mono(rec, dict(A=c["A"]), "quick", 0)
    hit = [x for x in rec.violations if x["sig"] == v["sig"]]
    return (not hit), "replayed family of %s: %d violations with signature %s%s" % (
        c, rec.viol_sigs.get(v["sig"], 0), v["sig"], ("\nfirst: %s" % hit[0]) if hit else "")
