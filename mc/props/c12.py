"""C12 - FIMO reports exactly the windows above threshold, both strands, fields correct.

Exhaustive over ALL sequences up to a length bound (packed as one tensor per length, so every motif occurrence sits at
every offset including 0 and L-w), motif sets from the C11 palette (widths 1..4, so w = L and w = L-1 occur), p-value
thresholds, bin sizes, strands, dim 0/1, return_counts, FASTA vs tensor input, numba thread counts x chunk sizes, plus
constructed bin-edge probes (a window scoring just below the float64 score threshold but above its float32 rounding).
Oracle: pure numpy scanner using the exact C11 tables.
"""
import itertools
import math
import os
import shutil

import numpy
import torch

from mc import env
from mc.common import all_codes, call, ohe
from mc.refs import fimo_ref as R
from mc.report import Recorder

PID = "C12"
LEVEL = "exploration"
NUMBA_THREADS = 16
RULE = ("cases = (sequence, motif, strand, window start) for every sequence in the packed batches x configuration "
        "(threshold, bin size, strands, input form, dim, counts, threads); the set of reported hits is compared with the "
        "reference set and every field of every hit is checked; non-trivial = windows that are hits in the reference "
        "(counted) - also counted: hits at the last window start L-w and bin-edge probes found")
ASSUMPTIONS = ["thresholds chosen so that no attainable tail probability coincides with the p-value threshold",
               "score compared with tolerance 1e-9 (fast-math may reassociate the per-window sum); windows whose reference score is within 1e-9 of the score threshold are not decided"]

PAL = [[0.25, 0.25, 0.25, 0.25], [0.97, 0.01, 0.01, 0.01], [1 / 3., 1 / 3., 1 / 3., 0.0], [0.5, 0.5, 0.0, 0.0], [0.7, 0.1, 0.1, 0.1],
       [0.5, 0.25, 0.125, 0.125], [0.26, 0.24, 0.25, 0.25]]
# (columns are probability vectors: every column has an entry >= 0.25, so an unknown character - contributing 0 - never scores above the
#  best letter and a window score never leaves the motif's own table.  With unnormalised weight columns such as [0.1,0.1,0.1,0.1] the pinned
#  code looks the p-value up beyond the table; that input class is outside the property's PWMs and is not enumerated.)
MOTIF_SETS = [
    [[1, 1, 1]], [[4]], [[1, 4], [5, 1, 3]], [[1, 1, 1, 1], [4, 4]], [[3, 5], [1], [2, 4, 1], [6, 1]], [[5, 5, 1, 4]],
    [[1, 4, 1], [4, 1], [5, 4, 4]],
    "PALINDROMES",          # PWMs that equal their own reverse complement exactly (E-box like), next to an ordinary motif
]


def bound(tier):
    return ("all ACGT sequences of length 3..5 (+ACGTN length 4), 6 motif sets, thresholds {0.3,0.05,0.01}, bin 0.1/0.5, strands, dim, counts; threads {1,2,3,4,8,16}"
            if tier == "quick" else
            "all ACGT sequences of length 1..6 and ACGTN of length <=5, 6 motif sets, thresholds {0.3,0.05,0.01,1e-4}, bin {0.1,0.5}, strands, dim, counts, FASTA vs tensor; threads {1,2,3,4,8,16} x chunk sizes {0,1,2}")


def shards(tier, seed):
    out = []
    Ls = (3, 4, 5) if tier == "quick" else (1, 2, 3, 4, 5, 6)
    for L in Ls:
        for mi in range(len(MOTIF_SETS)):
            out.append(dict(name="scan/L%d/m%d" % (L, mi), kind="scan", L=L, mi=mi, N=False, numba_threads=2, weight=4 ** L))
    for L in ((4,) if tier == "quick" else (3, 4, 5)):
        for mi in range(len(MOTIF_SETS)):
            out.append(dict(name="scanN/L%d/m%d" % (L, mi), kind="scan", L=L, mi=mi, N=True, numba_threads=2, weight=5 ** L))
    for L in ((130, 300, 33000, (1 << 20) + 300) if tier == "quick" else (130, 300, 33000, 70000, (1 << 20) + 300, (1 << 21) + 77)):
        out.append(dict(name="planted/L%d" % L, kind="planted", L=L, numba_threads=4, weight=L))
    out.append(dict(name="many_motifs", kind="many_motifs", numba_threads=4, weight=2500))
    out.append(dict(name="history", kind="history", numba_threads=2, weight=800))
    out.append(dict(name="fasta", kind="fasta", numba_threads=2, weight=500))
    out.append(dict(name="threads", kind="threads", numba_threads=16, weight=3000))
    out.append(dict(name="binedge", kind="binedge", numba_threads=1, weight=500))
    return out


def build(cols, k):
    pw = numpy.zeros((4, len(cols)))
    for i, c in enumerate(cols):
        v = PAL[c]
        r = (i + k) % 4
        pw[:, i] = v[r:] + v[:r]
    return pw


def motif_dict(mi):
    # motif names are the user's: in two of the sets a motif is literally called '<other name>-rc' (the suffix fimo uses internally
    # for the reverse-complement PWMs) and names repeat a prefix of one another
    if MOTIF_SETS[mi] == "PALINDROMES":
        def pal(cons, hi, lo):
            w = len(cons)
            pw = numpy.full((4, w), lo)
            pw[cons, numpy.arange(w)] = hi
            assert numpy.array_equal(pw, pw[::-1, ::-1])
            return torch.from_numpy(pw)
        return {"pal_ACGT": pal([0, 1, 2, 3], 0.7, 0.1), "pal_CATG": pal([1, 0, 3, 2], 0.85, 0.05), "m_5_1": torch.from_numpy(build([5, 1], 1)),
                "pal_AT": pal([0, 3], 0.55, 0.15)}
    if mi in (2, 4):
        names = ["GATA", "GATA-rc", "GATA-rc-rc", "GA"]
        return {names[k]: torch.from_numpy(build(cols, k)) for k, cols in enumerate(MOTIF_SETS[mi])}
    return {"m%d_%s" % (k, "".join(map(str, cols))): torch.from_numpy(build(cols, k)) for k, cols in enumerate(MOTIF_SETS[mi])}


# ------------------------------------------------------------------------------------------------ reference scanner
def ref_motif(pwm, eps, bin_size, threshold):
    """-> (log_pwm, score_threshold (float64), table dict bin->log2 p, lowest bin)"""
    log_pwm = numpy.log2(pwm + eps) - math.log2(0.25)
    ip = R.int_scores(log_pwm, bin_size)
    cnt = R.score_counts(ip)
    lo, hi = min(cnt), max(cnt)
    bins = list(range(lo - 2, hi + 3))
    tab, _, _ = R.tail_log2(cnt, 4, pwm.shape[1], bins)
    lt = math.log2(threshold)
    b0 = None
    for b, t in zip(bins, tab):
        if t < lt:
            b0 = b
            break
    return log_pwm, (b0 * bin_size if b0 is not None else float("inf")), dict(zip(bins, tab)), lo


def ref_hits(codes_list, motifs, eps, bin_size, threshold, rc):
    """codes_list: list of 1-D int arrays (-1 = unknown).  -> dict key (motif_idx, seq, start, end, strand) -> (score, p), undecided set"""
    hits, undecided = {}, set()
    for mi, (name, pwm) in enumerate(motifs):
        for strand, pw in (("+", pwm),) + ((("-", pwm[::-1, ::-1]),) if rc else ()):
            log_pwm, thr, tab, lo = ref_motif(pw, eps, bin_size, threshold)
            w = pw.shape[1]
            pad = numpy.vstack([log_pwm, numpy.zeros((1, w))])     # row 4 (index -1) = unknown character contributes 0
            for si, codes in enumerate(codes_list):
                Ls = len(codes)
                for st in range(0, Ls - w + 1):
                    win = codes[st:st + w]
                    score = 0.0
                    for j in range(w):
                        score += pad[win[j], j]
                    key = (mi, si, st, st + w, strand)
                    if abs(score - thr) < 1e-9:
                        undecided.add(key)
                        continue
                    if score > thr:
                        b = int(score / bin_size)
                        hits[key] = (score, 2.0 ** tab.get(b, float("-inf") if b > lo else 0.0))
    return hits, undecided


def ref_hits_packed(codes, motifs, eps, bin_size, threshold, rc):
    """vectorised version for an (N, L) batch of equal-length sequences."""
    hits, undecided = {}, set()
    N, L = codes.shape
    for mi, (name, pwm) in enumerate(motifs):
        for strand, pw in (("+", pwm),) + ((("-", pwm[::-1, ::-1]),) if rc else ()):
            log_pwm, thr, tab, lo = ref_motif(pw, eps, bin_size, threshold)
            w = pw.shape[1]
            pad = numpy.vstack([log_pwm, numpy.zeros((1, w))])
            for st in range(0, L - w + 1):
                sc = numpy.zeros(N)
                for j in range(w):
                    sc = sc + pad[codes[:, st + j], j]
                near = numpy.abs(sc - thr) < 1e-9
                for si in numpy.nonzero(near)[0]:
                    undecided.add((mi, int(si), st, st + w, strand))
                for si in numpy.nonzero((sc > thr) & ~near)[0]:
                    b = int(sc[si] / bin_size)
                    hits[(mi, int(si), st, st + w, strand)] = (float(sc[si]), 2.0 ** tab.get(b, float("-inf") if b > lo else 0.0))
    return hits, undecided


def impl_hits(dfs, names=None):
    """list of DataFrames (dim 0 or 1) -> dict key -> (score, p, motif_name)"""
    out = {}
    dup = 0
    for df in dfs:
        for r in df.itertuples(index=False):
            seq = r.sequence_name
            if names is not None:
                seq = names.index(seq)
            key = (int(r.motif_idx), int(seq), int(r.start), int(r.end), str(r.strand))
            if key in out:
                dup += 1
            out[key] = (float(r.score), float(getattr(r, "_7") if hasattr(r, "_7") else df["p-value"].iloc[0]), str(r.motif_name))
    return out, dup


def df_to_hits(dfs, names=None):
    out, dup = {}, 0
    for df in dfs:
        cols = list(df.columns)
        if cols != ['motif_name', 'motif_idx', 'sequence_name', 'start', 'end', 'strand', 'score', 'p-value']:
            return None, "columns %s" % cols
        for mn, mi, sn, s, e, strand, sc, p in df.itertuples(index=False, name=None):
            seq = names.index(sn) if names is not None else int(sn)
            key = (int(mi), seq, int(s), int(e), str(strand))
            dup += int(key in out)
            out[key] = (float(sc), float(p), str(mn))
    return out, dup


def compare(rec, case, got, dup, ref, undecided, motif_names, threshold, L=None):
    if got is None:
        rec.violation("fimo:bad_dataframe", case, observed=dup)
        return False
    if dup:
        rec.violation("fimo:duplicate_hits", case, observed=dup)
        return False
    gk = set(got) - undecided
    rk = set(ref) - undecided
    missing = sorted(rk - gk)
    extra = sorted(gk - rk)
    if missing:
        k = missing[0]
        kind = "last_window" if (L is not None and all(m[3] == L for m in missing)) else "general"
        rec.violation("fimo:hit_missing:" + kind, dict(case, hit=list(k), n_missing=len(missing)), expected=ref[k], observed=None,
                      msg="window is above threshold in the reference but not reported")
        return False
    if extra:
        k = extra[0]
        rec.violation("fimo:spurious_hit", dict(case, hit=list(k), n_extra=len(extra)), expected=None, observed=got[k])
        return False
    for k in gk:
        sc, p, mn = got[k]
        rs, rp = ref[k]
        if abs(sc - rs) > 1e-9 * max(1.0, abs(rs)):
            rec.violation("fimo:wrong_score", dict(case, hit=list(k)), expected=rs, observed=sc)
            return False
        if not (abs(p - rp) <= 1e-9 * rp) or not (p < threshold):
            rec.violation("fimo:wrong_p_value", dict(case, hit=list(k)), expected=rp, observed=p)
            return False
        if mn != motif_names[k[0]]:
            rec.violation("fimo:wrong_motif_name", dict(case, hit=list(k)), expected=motif_names[k[0]], observed=mn)
            return False
    return True


# ------------------------------------------------------------------------------------------------ shards
def run_scan(rec, sh, tier, seed):
    from tangermeme.tools.fimo import fimo
    L, mi = sh["L"], sh["mi"]
    codes = all_codes(5 if sh["N"] else 4, L)
    codes = numpy.where(codes == 4, -1, codes)
    X = ohe(codes, 4)
    Xc = X.clone()
    md = motif_dict(mi)
    motifs = [(n, p.numpy()) for n, p in md.items()]
    names = [n for n, _ in motifs]
    # 0.25 / 0.0625 / 0.015625 coincide exactly with the tail probability 4^-w of a unique consensus of width 1 / 2 / 3: a hit's p-value must
    # lie strictly below the threshold
    thrs = (0.3, 0.05, 0.01, 0.25, 0.0625, 0.015625) if tier == "quick" else (0.3, 0.05, 0.01, 1e-4, 0.5, 0.25, 0.0625, 0.015625, 2.0 ** -8)
    n_hits = n_last = 0
    for thr in thrs:
        for bs in (0.1, 0.5):
            for rc in (False, True):
                case = dict(fn="fimo", L=L, alphabet="ACGTN" if sh["N"] else "ACGT", motif_set=mi, threshold=thr, bin_size=bs, reverse_complement=rc,
                            input="tensor (all sequences of this length)")
                ref, und = ref_hits_packed(codes, motifs, 1e-4, bs, thr, rc)
                st, dfs = call(fimo, md, X, bin_size=bs, threshold=thr, reverse_complement=rc)
                rec.case(len(codes) * len(motifs) * (2 if rc else 1), len(ref))
                if st != "ok":
                    rec.violation("fimo:raises", case, observed=dfs)
                    continue
                got, dup = df_to_hits(dfs)
                if not compare(rec, case, got, dup, ref, und, names, thr, L):
                    continue
                n_hits += len(ref)
                n_last += sum(1 for k in ref if k[3] == L)
                # other accepted input types describe the same set: numpy array, int8 tensor, float64 tensor
                bigX = torch.zeros(X.shape[0], 4, 2 * L)
                bigX[:, :, ::2] = X
                for alt_name, Xalt in (("numpy", X.numpy()), ("int8", X.to(torch.int8)), ("float64", X.double()), ("strided_view", bigX[:, :, ::2])):
                    if (thr, bs) != (thrs[0], 0.1) and alt_name != "numpy":
                        continue
                    st, da = call(fimo, md, Xalt, bin_size=bs, threshold=thr, reverse_complement=rc)
                    ga, dupa = df_to_hits(da) if st == "ok" else (None, 0)
                    if ga is None or set(ga) != set(got):
                        rec.violation("fimo:input_type_changes_hits:" + alt_name, case, observed=da if st != "ok" else len(ga))
                # dim=1 describes the same set
                st, d1 = call(fimo, md, X, bin_size=bs, threshold=thr, reverse_complement=rc, dim=1)
                if st != "ok":
                    rec.violation("fimo:dim1_raises", case, observed=d1)
                else:
                    g1, dup1 = df_to_hits(d1)
                    if g1 is None or dup1 or set(g1) != set(got):
                        rec.violation("fimo:dim1_differs", case, expected=len(got), observed=None if g1 is None else len(g1))
                    elif any(len(set(df["sequence_name"])) != 1 for df in d1):
                        rec.violation("fimo:dim1_not_grouped_by_sequence", case)
                # return_counts describes the same set
                st, cn = call(fimo, md, X, bin_size=bs, threshold=thr, reverse_complement=rc, return_counts=True)
                expc = [sum(1 for k in got if k[0] == m) for m in range(len(motifs))]
                if st != "ok":
                    rec.violation("fimo:return_counts_raises:" + ("rc" if rc else "no_rc"), case, observed=cn)
                elif list(map(int, cn)) != expc:
                    rec.violation("fimo:return_counts_differs", case, expected=expc, observed=cn)
                # mirror symmetry: scanning the reverse complement of every sequence gives the mirror image
                if rc and not sh["N"]:
                    Xr = torch.flip(X, dims=(1, 2))
                    st, dr = call(fimo, md, Xr, bin_size=bs, threshold=thr, reverse_complement=True)
                    if st == "ok":
                        gr, _ = df_to_hits(dr)
                        mirror = {(k[0], k[1], L - k[3], L - k[2], "-" if k[4] == "+" else "+") for k in got}
                        if gr is None or set(gr) != mirror:
                            rec.violation("fimo:not_mirror_symmetric", case)
                    else:
                        rec.violation("fimo:raises", dict(case, input="reverse complement"), observed=dr)
                if not torch.equal(X, Xc):
                    rec.violation("fimo:input_modified", case)
                    X = Xc.clone()
                rec.observe(L, mi, thr, bs, rc, len(ref), round(sum(v[0] for v in ref.values()), 6))
    rec.count("reference_hits", n_hits)
    rec.count("hits_at_last_window", n_last)
    rec.sample(dict(kind="scan", L=L, N=sh["N"], motifs={n: p.tolist() for n, p in motifs}, sequences=len(codes)))


def ref_hits_long(codes_list, motifs, eps, bin_size, threshold, rc):
    """numpy-vectorised reference for long sequences (window scores by shifted gathers)."""
    hits, undecided = {}, set()
    for mi, (name, pwm) in enumerate(motifs):
        for strand, pw in (("+", pwm),) + ((("-", pwm[::-1, ::-1]),) if rc else ()):
            log_pwm, thr, tab, lo = ref_motif(pw, eps, bin_size, threshold)
            w = pw.shape[1]
            pad = numpy.vstack([log_pwm, numpy.zeros((1, w))])
            for si, codes in enumerate(codes_list):
                n = len(codes) - w + 1
                if n <= 0:
                    continue
                sc = numpy.zeros(n)
                for j in range(w):
                    sc = sc + pad[codes[j:j + n], j]
                near = numpy.abs(sc - thr) < 1e-9
                for st in numpy.nonzero(near)[0]:
                    undecided.add((mi, si, int(st), int(st) + w, strand))
                for st in numpy.nonzero((sc > thr) & ~near)[0]:
                    b = int(sc[st] / bin_size)
                    hits[(mi, si, int(st), int(st) + w, strand)] = (float(sc[st]), 2.0 ** tab.get(b, float("-inf") if b > lo else 0.0))
    return hits, undecided


def run_planted(rec, sh, tier, seed):
    """1-8 motifs of width 2-20, consensus planted at every boundary offset (0, 1, dtype-width boundaries, L-w-1, L-w) on both strands,
    thresholds down to 1e-6, several sequences, tensor and FASTA input."""
    from tangermeme.tools.fimo import fimo
    L = sh["L"]
    rs = numpy.random.RandomState(99 + seed)
    widths = [2, 5, 8, 11, 14, 17, 20, 20]
    motifs = []
    for k, w in enumerate(widths):
        cons = rs.randint(0, 4, w)
        # consensus probability 0.85: its discretised column score (18 bins of 0.1) lies ABOVE the real log-odds 1.766, so the real
        # score of the consensus stays inside the table; 0.8351: real log-odds 1.74 = 17.4 bins, discretised 17, so the real-valued
        # consensus score lies 0.4 * w bins beyond the largest attainable discretised score (exact p-value 0, not a neighbour's entry)
        pc = 0.85 if k % 4 < 2 else 0.8351
        pw = numpy.full((4, w), (1 - pc) / 3)
        pw[cons, numpy.arange(w)] = pc
        if k % 2:
            j = w // 2
            pw[:, j] = 0.25                                 # an uninformative column
        motifs.append(("w%d_%d" % (w, k), pw, cons))
    nseq = 3 if (L <= 1000 or L > 100000) else 1
    seqs = []
    for si in range(nseq):
        codes = rs.randint(0, 4, L)
        if L <= 1000:
            codes[rs.randint(0, L, 3)] = -1                 # a few unknown characters
        offs_all = [0, 1, 126, 127, 128, 254, 255, 256, 32766, 32767, 32768, 65534, 65535, 65536] + \
                   [(1 << 20) + dd for dd in (-21, -12, -4, -1, 0, 3)] + [(1 << 21) + dd for dd in (-9, -2, 0)]
        for k, (name, pw, cons) in enumerate(motifs):
            w = len(cons)
            for oi, o in enumerate(offs_all + [L - w - 1, L - w]):
                if o < 0 or o + w > L or (oi + k + si) % 3:
                    continue
                codes[o:o + w] = cons if (oi + si) % 2 == 0 else (3 - cons[::-1])       # forward or reverse-complement instance
        if L > (1 << 20):
            # one motif per sequence planted so that its window STARTS in the last w-1 positions before the 2**20 boundary
            name, pw, cons = motifs[si % 3]
            codes[(1 << 20) - 1:(1 << 20) - 1 + len(cons)] = cons
        seqs.append(codes)
    X = ohe(numpy.stack(seqs), 4)
    d = env.scratch_dir("c12p")
    try:
        fa = os.path.join(d, "p.fa")
        with open(fa, "w") as fh:
            for si, c in enumerate(seqs):
                fh.write(">seq%d\n%s\n" % (si, "".join("ACGT"[v] if v >= 0 else "N" for v in c)))
        names = ["seq%d" % i for i in range(nseq)]
        n_hits = n_last = 0
        for nm in (((8, 3) if L < 100000 else (3,)) if tier == "quick" else (8, 5, 3, 1)):
            sub = motifs[:nm]
            md = {n: torch.from_numpy(p) for n, p, _ in sub}
            mlist = [(n, p) for n, p, _ in sub]
            mnames = [n for n, _, _ in sub]
            for thr in ((1e-2, 1e-4, 1e-6) if L < 100000 else (1e-4,)):
                for rc in (True, False):
                    case = dict(fn="fimo", L=L, n_sequences=nseq, n_motifs=nm, widths=widths[:nm], threshold=thr, bin_size=0.1, reverse_complement=rc,
                                input="tensor (planted motifs)", seed=seed)
                    ref, und = ref_hits_long(seqs, mlist, 1e-4, 0.1, thr, rc)
                    st, dfs = call(fimo, md, X, threshold=thr, reverse_complement=rc)
                    rec.case(nseq * L * nm * (2 if rc else 1), len(ref))
                    if st != "ok":
                        rec.violation("fimo:raises", case, observed=dfs)
                        continue
                    got, dup = df_to_hits(dfs)
                    if not compare(rec, case, got, dup, ref, und, mnames, thr):
                        continue
                    n_hits += len(ref)
                    n_last += sum(1 for k in ref if k[3] == L)
                    st, dff = call(fimo, md, fa, threshold=thr, reverse_complement=rc)
                    gf, dupf = df_to_hits(dff, names) if st == "ok" else (None, 0)
                    if gf is None or set(gf) != set(got):
                        rec.violation("fimo:fasta_vs_tensor_differ", dict(case, input="fasta"))
                    rec.observe(L, nm, thr, rc, len(ref))
        if L <= 1000:
            # large pseudocounts: with eps = 0.1 every entry of a uniform column has a POSITIVE log-odds, so the lowest partial sum of
            # column minima is not the last one; motifs = strong core followed (or preceded) by several uniform columns
            motifs2 = []
            for k, (wc, wu) in enumerate(((6, 6), (8, 10), (5, 3), (10, 12))):
                cons = rs.randint(0, 4, wc)
                core = numpy.full((4, wc), 0.05)
                core[cons, numpy.arange(wc)] = 0.85
                uni = numpy.full((4, wu), 0.25)
                pw = numpy.concatenate([core, uni] if k % 2 == 0 else [uni, core], axis=1)
                motifs2.append(("flat%d" % k, pw, cons, 0 if k % 2 == 0 else wu))
            codes2 = [c.copy() for c in seqs]
            for si, c in enumerate(codes2):
                for k, (name, pw, cons, off) in enumerate(motifs2):
                    o = 10 + 40 * k + si
                    if o + pw.shape[1] <= L:
                        c[o + off:o + off + len(cons)] = cons
            X2 = ohe(numpy.stack(codes2), 4)
            md2 = {n: torch.from_numpy(p) for n, p, _, _ in motifs2}
            ml2 = [(n, p) for n, p, _, _ in motifs2]
            for eps_ in (0.1, 0.5, 1e-4):
                for thr in (1e-2, 1e-4):
                    for rc in (True, False):
                        case = dict(fn="fimo", L=L, n_sequences=nseq, n_motifs=len(ml2), threshold=thr, bin_size=0.1, eps=eps_, reverse_complement=rc,
                                    input="tensor (planted motifs, cores with uniform flanks)", seed=seed)
                        ref, und = ref_hits_long(codes2, ml2, eps_, 0.1, thr, rc)
                        st, dfs = call(fimo, md2, X2, threshold=thr, reverse_complement=rc, eps=eps_)
                        rec.case(nseq * L * len(ml2) * (2 if rc else 1), len(ref))
                        if st != "ok":
                            rec.violation("fimo:raises", case, observed=dfs)
                            continue
                        got, dup = df_to_hits(dfs)
                        if compare(rec, case, got, dup, ref, und, [n for n, _ in ml2], thr):
                            n_hits += len(ref)
        rec.count("reference_hits", n_hits)
        rec.count("hits_at_last_window", n_last)
        rec.sample(dict(kind="planted", L=L, widths=widths, thresholds=[1e-2, 1e-4, 1e-6], planted_offsets="0,1,126..128,254..256,32766..32768,65534..65536,L-w-1,L-w"))
    finally:
        shutil.rmtree(d, ignore_errors=True)


def run_many_motifs(rec, tier, seed):
    """Motif counts beyond 64 / 128 / 255 in one call (with and without reverse complements): every hit is looked up in its own motif's table."""
    from tangermeme.tools.fimo import fimo
    rs = numpy.random.RandomState(31 + seed)
    L, nseq = 150, 4
    motifs = []
    for k in range(300):
        w = 2 + (k * 5) % 9
        cons = rs.randint(0, 4, w)
        pc = (0.85, 0.8351, 0.7, 0.55)[k % 4]
        pw = numpy.full((4, w), (1 - pc) / 3)
        pw[cons, numpy.arange(w)] = pc
        motifs.append(("m%03d" % k, pw, cons))
    seqs = []
    for si in range(nseq):
        codes = rs.randint(0, 4, L)
        for k in range(si, 300, 7):                           # plant a share of the motifs (both orientations)
            cons = motifs[k][2]
            o = (k * 13 + si) % (L - len(cons))
            codes[o:o + len(cons)] = cons if k % 2 else (3 - cons[::-1])
        seqs.append(codes)
    X = ohe(numpy.stack(seqs), 4)
    n_hits = 0
    for nm in ((64, 65, 129, 300) if tier == "quick" else (63, 64, 65, 128, 129, 255, 256, 257, 300)):
        sub = motifs[:nm]
        md = {n: torch.from_numpy(p) for n, p, _ in sub}
        mlist = [(n, p) for n, p, _ in sub]
        mnames = [n for n, _, _ in sub]
        for thr in (1e-2, 1e-3):
            for rc in (True, False):
                case = dict(fn="fimo", L=L, n_sequences=nseq, n_motifs=nm, threshold=thr, bin_size=0.1, reverse_complement=rc, input="tensor (many motifs)", seed=seed)
                ref, und = ref_hits_long(seqs, mlist, 1e-4, 0.1, thr, rc)
                st, dfs = call(fimo, md, X, threshold=thr, reverse_complement=rc)
                rec.case(nseq * L * nm * (2 if rc else 1), len(ref))
                if st != "ok":
                    rec.violation("fimo:raises", case, observed=dfs)
                    continue
                got, dup = df_to_hits(dfs)
                if compare(rec, case, got, dup, ref, und, mnames, thr):
                    n_hits += len(ref)
                rec.observe(nm, thr, rc, len(ref))
    rec.count("reference_hits", n_hits)
    rec.sample(dict(kind="many_motifs", n_motifs=[64, 65, 129, 300], widths="2..10", L=L, sequences=nseq))


def run_history(rec, tier, seed):
    """Call histories in one process: the same motif NAMES and widths with different probabilities, pseudocounts, bin sizes, thresholds and
    strand settings in alternation - every call must be answered from its own arguments (tables / thresholds of an earlier call must not be reused)."""
    from tangermeme.tools.fimo import fimo
    codes = all_codes(4, 5)
    X = ohe(codes, 4)
    A_ = {"m0": build([1, 4, 1], 0), "m1": build([4, 4], 1)}
    B_ = {"m0": build([4, 1, 5], 2), "m1": build([1, 3], 0)}          # same names and widths, different probabilities
    C_ = {"m0": build([0, 4, 0], 1), "m1": build([4, 0], 0)}          # uniform columns: eps changes their discretised score
    steps = [(A_, 1e-4, 0.1, 0.05, True), (B_, 1e-4, 0.1, 0.05, True), (A_, 1e-4, 0.1, 0.05, True), (A_, 0.05, 0.1, 0.05, True), (A_, 1e-4, 0.5, 0.05, True),
             (A_, 1e-4, 0.1, 0.3, False), (C_, 0.1, 0.1, 0.05, True), (C_, 1e-4, 0.1, 0.05, True), (C_, 0.01, 0.01, 0.05, False), (B_, 0.1, 0.5, 0.01, True),
             (A_, 1e-4, 0.1, 0.05, True)]
    orders = [list(range(len(steps))), list(range(len(steps)))[::-1], [0, 3, 0, 4, 0, 1, 6, 7, 6, 8, 9, 2]]
    for oi, order in enumerate(orders):
        for k, si in enumerate(order):
            pw, eps, bs, thr, rc = steps[si]
            md = {n: torch.from_numpy(p) for n, p in pw.items()}
            motifs = list(pw.items())
            ref, und = ref_hits_packed(codes, motifs, eps, bs, thr, rc)
            st, dfs = call(fimo, md, X, eps=eps, bin_size=bs, threshold=thr, reverse_complement=rc)
            case = dict(fn="fimo", history_order=oi, step=k, config=dict(motifs=si, eps=eps, bin_size=bs, threshold=thr, reverse_complement=rc), L=5,
                        previous_configs=[steps[j][1:] for j in order[:k]][-3:])
            rec.case(len(codes) * 2, len(ref))
            if st != "ok":
                rec.violation("fimo:raises:history", case, observed=dfs)
                continue
            got, dup = df_to_hits(dfs)
            if got is None or dup or set(got) - und != set(ref) - und:
                rec.violation("fimo:hit_set_depends_on_earlier_calls", case, expected=len(ref), observed=None if got is None else len(got))
                continue
            bad = [kk for kk in set(got) - und if abs(got[kk][1] - ref[kk][1]) > 1e-9 * ref[kk][1] or abs(got[kk][0] - ref[kk][0]) > 1e-9 * max(1, abs(ref[kk][0]))]
            if bad:
                rec.violation("fimo:p_value_depends_on_earlier_calls", dict(case, hit=list(bad[0])), expected=ref[bad[0]], observed=got[bad[0]][:2])
            rec.observe(oi, k, len(ref))
    rec.sample(dict(kind="history", steps=[(si, s_[1:]) for si, s_ in enumerate(steps)], orders=orders))


FASTA_SETS = [
    [("s1", "ACGTACGTTTGCA"), ("s2", "ac"), ("chrZ", "ACGNNACGacgTTA"), ("x", "ACG")],
    [("a", "TTTACG"), ("b", "A"), ("c", "CGTACGTAAACGTnnnACG"), ("d", "GGGGCGT")],
    [("only", "ACGACGACGACG")],
    # ambiguity codes and gaps but no N anywhere in the file: every character outside the alphabet is an unknown character (contributes 0)
    [("iupac", "ACGTRYKACGT-ACGTWSACGCATG"), ("plain", "acgtacgtacgtcatg"), ("gap", "AC-GT.ACGT*A")],
]


def run_fasta(rec, tier, seed):
    from tangermeme.tools.fimo import fimo
    d = env.scratch_dir("c12")
    try:
        for fi, recs in enumerate(FASTA_SETS):
            fa = os.path.join(d, "f%d.fa" % fi)
            with open(fa, "w") as fh:
                for n, s in recs:
                    fh.write(">%s\n%s\n" % (n, s))
            codes_list = [numpy.array(["ACGT".index(c) if c in "ACGT" else -1 for c in s.upper()]) for _, s in recs]
            names = [n for n, _ in recs]
            for mi in range(len(MOTIF_SETS)):
                md = motif_dict(mi)
                motifs = [(n, p.numpy()) for n, p in md.items()]
                mnames = [n for n, _ in motifs]
                for thr in (0.3, 0.05, 0.01):
                    for rc in (False, True):
                        case = dict(fn="fimo", fasta=recs, motif_set=mi, threshold=thr, bin_size=0.1, reverse_complement=rc, input="fasta")
                        ref, und = ref_hits(codes_list, motifs, 1e-4, 0.1, thr, rc)
                        st, dfs = call(fimo, md, fa, threshold=thr, reverse_complement=rc)
                        rec.case(sum(len(c) for c in codes_list) * len(motifs), len(ref))
                        if st != "ok":
                            rec.violation("fimo:raises", case, observed=dfs)
                            continue
                        got, dup = df_to_hits(dfs, names)
                        if not compare(rec, case, got, dup, ref, und, mnames, thr):
                            continue
                        # same sequences as a tensor (only when all records have the same length) -> same set
                        if len(set(len(c) for c in codes_list)) == 1:
                            X = ohe(numpy.stack(codes_list), 4)
                            st, dt = call(fimo, md, X, threshold=thr, reverse_complement=rc)
                            gt, _ = df_to_hits(dt) if st == "ok" else (None, 0)
                            if gt is None or set(gt) != set(got):
                                rec.violation("fimo:fasta_vs_tensor_differ", case)
                        st, d1 = call(fimo, md, fa, threshold=thr, reverse_complement=rc, dim=1)
                        g1, dup1 = df_to_hits(d1, names) if st == "ok" else (None, 0)
                        if g1 is None or set(g1) != set(got):
                            rec.violation("fimo:dim1_differs", case)
                        # a non-default alphabet order for the FASTA characters, with the PWM rows permuted accordingly, describes the same hits
                        if not rc:
                            perm = [3, 2, 1, 0]            # alphabet T, G, C, A
                            md2 = {n: p[perm] for n, p in md.items()}
                            st, d2 = call(fimo, md2, fa, threshold=thr, reverse_complement=False, alphabet=["T", "G", "C", "A"])
                            g2, dup2 = df_to_hits(d2, names) if st == "ok" else (None, 0)
                            if g2 is None or set(g2) != set(got):
                                rec.violation("fimo:custom_alphabet_differs", case, observed=d2 if st != "ok" else len(g2))
                        # call history: after the DNA alphabet, the same file under an alphabet that LACKS one of its letters
                        # (A, C, G, U): every T in the file is now an unknown character and contributes 0
                        if not rc and thr == 0.3:
                            codes_u = [numpy.where(c == 3, -1, c) for c in codes_list]
                            ref_u, und_u = ref_hits(codes_u, motifs, 1e-4, 0.1, thr, False)
                            st, du = call(fimo, md, fa, threshold=thr, reverse_complement=False, alphabet=["A", "C", "G", "U"])
                            gu, dupu = df_to_hits(du, names) if st == "ok" else (None, 0)
                            rec.case(1, 1)
                            if gu is None or (set(gu) - und_u) != (set(ref_u) - und_u):
                                rec.violation("fimo:alphabet_of_an_earlier_call_still_applies", dict(case, alphabet="ACGU"), expected=len(ref_u),
                                              observed=du if st != "ok" else len(gu))
                        rec.observe(fi, mi, thr, rc, sorted(ref)[:5])
        rec.sample(dict(kind="fasta", files=FASTA_SETS))
    finally:
        shutil.rmtree(d, ignore_errors=True)


def run_threads(rec, tier, seed):
    import numba
    from tangermeme.tools.fimo import fimo
    codes = all_codes(4, 5)
    X = ohe(codes, 4)
    for mi in ((0, 2, 4, 6) if tier == "quick" else range(len(MOTIF_SETS))):
        md = motif_dict(mi)
        for rc in (False, True):
            numba.set_num_threads(1)
            st, base = call(fimo, md, X, threshold=0.05, reverse_complement=rc)
            if st != "ok":
                rec.violation("fimo:raises", dict(fn="fimo", threads=1, motif_set=mi), observed=base)
                continue
            b, _ = df_to_hits(base)
            for nt in (2, 3, 4, 8, 16):
                for chunk in ((0,) if tier == "quick" else (0, 1, 2)):
                    numba.set_num_threads(nt)
                    numba.set_parallel_chunksize(chunk)
                    st, dfs = call(fimo, md, X, threshold=0.05, reverse_complement=rc)
                    st2, cnt = call(fimo, md, X, threshold=0.05, reverse_complement=True, return_counts=True)
                    numba.set_parallel_chunksize(0)
                    rec.case(1, 1)
                    rec.count("schedules")
                    g, dup = df_to_hits(dfs) if st == "ok" else (None, 0)
                    case = dict(fn="fimo", motif_set=mi, reverse_complement=rc, threads=nt, chunksize=chunk, L=5)
                    if g is None or g != b:
                        rec.violation("fimo:result_depends_on_threads", case, expected=len(b), observed=None if g is None else len(g))
                    if rc and (st2 != "ok" or list(map(int, cnt)) != [sum(1 for k in b if k[0] == m) for m in range(len(md))]):
                        rec.violation("fimo:counts_depend_on_threads", case, observed=cnt)
            numba.set_num_threads(1)
            rec.observe(mi, rc, len(b))
    rec.sample(dict(kind="threads", threads=[1, 2, 3, 4, 8, 16], motif_sets=[2, 3, 4], sequences="all ACGT of length 5"))


def run_binedge(rec, tier, seed):
    """Windows that score just BELOW the float64 score threshold T but above float32(T): must not be reported."""
    from tangermeme.tools.fimo import fimo
    found = 0
    for cols, k in (([1, 4], 0), ([4, 4, 1], 1), ([5, 1, 3], 2), ([1, 1, 1], 0), ([4, 5], 3)):
        base = build(cols, k)
        w = base.shape[1]
        for thr in (0.3, 0.1, 0.05, 0.02):
            for bs in (0.1, 0.05):
                seqs = all_codes(4, w)
                log_pwm, T, tab, lo = ref_motif(base, 1e-4, bs, thr)
                if not numpy.isfinite(T) or float(numpy.float32(T)) >= T:
                    continue          # float32 rounding is not below T: no gap to aim at
                sc = sum(log_pwm[seqs[:, j], j] for j in range(w))
                order = numpy.argsort(numpy.abs(sc - T))
                for si in order[:6]:
                    target = T * (1 - 2.0 ** -30)
                    if not (float(numpy.float32(T)) < target < T):
                        break
                    pw = base.copy()
                    j = w - 1
                    c = seqs[si, j]
                    pw[c, j] = (pw[c, j] + 1e-4) * 2.0 ** (target - sc[si]) - 1e-4
                    if pw[c, j] <= 0 or pw[c, j] > 1:
                        continue
                    lp2, T2, tab2, lo2 = ref_motif(pw, 1e-4, bs, thr)
                    s2 = sum(lp2[seqs[si, jj], jj] for jj in range(w))
                    if T2 != T or not (float(numpy.float32(T2)) < s2 < T2 - 1e-12):
                        continue
                    found += 1
                    md = {"probe": torch.from_numpy(pw)}
                    X = ohe(seqs[si:si + 1], 4)
                    case = dict(fn="fimo", probe="score just below T", pwm=pw.tolist(), sequence=seqs[si].tolist(), threshold=thr, bin_size=bs,
                                T=T2, float32_T=float(numpy.float32(T2)), score=float(s2))
                    st, dfs = call(fimo, md, X, threshold=thr, bin_size=bs, reverse_complement=False)
                    rec.case(1, 1)
                    if st != "ok":
                        rec.violation("fimo:raises", case, observed=dfs)
                        continue
                    ref, und = ref_hits_packed(seqs[si:si + 1], [("probe", pw)], 1e-4, bs, thr, False)
                    got, dup = df_to_hits(dfs)
                    if set(got) - und != set(ref) - und:
                        rec.violation("fimo:hit_below_score_threshold:float32_threshold", case, expected=sorted(ref), observed={str(k): v for k, v in got.items()},
                                      msg="window scores below the score threshold implied by the p-value threshold but is reported (with p >= threshold)")
                    break
    rec.count("bin_edge_probes", found)
    rec.sample(dict(kind="binedge", probes_found=found))


def run_shard(sh, tier, seed):
    rec = Recorder(PID, sh["name"])
    k = sh["kind"]
    if k == "scan":
        run_scan(rec, sh, tier, seed)
    elif k == "history":
        run_history(rec, tier, seed)
    elif k == "planted":
        run_planted(rec, sh, tier, seed)
    elif k == "many_motifs":
        run_many_motifs(rec, tier, seed)
    elif k == "fasta":
        run_fasta(rec, tier, seed)
    elif k == "threads":
        run_threads(rec, tier, seed)
    else:
        run_binedge(rec, tier, seed)
    return rec.result()


def replay(v):
    c = v["case"]
    rec = Recorder(PID, "replay")
    if "history_order" in c:
        run_history(rec, "quick", 0)
    elif c.get("probe"):
        run_binedge(rec, "quick", 0)
    elif "many motifs" in c.get("input", ""):
        run_many_motifs(rec, "quick", c.get("seed", 0))
    elif "planted" in c.get("input", ""):
        run_planted(rec, dict(L=c["L"]), "quick", c.get("seed", 0))
    elif c.get("input", "").startswith("fasta"):
        run_fasta(rec, "quick", 0)
    elif "threads" in c:
        run_threads(rec, "thorough", 0)
    else:
        run_scan(rec, dict(L=c["L"], mi=c["motif_set"], N=c.get("alphabet") == "ACGTN"), "thorough", 0)
    hit = [x for x in rec.violations if x["sig"] == v["sig"]]
    return (not hit), "replayed family: %d violations with signature %s%s" % (
        rec.viol_sigs.get(v["sig"], 0), v["sig"], ("\nfirst: %s" % hit[0]) if hit else "")
