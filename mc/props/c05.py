"""C05 - DeepLIFT/SHAP multipliers equal an independent rescale-rule computation.

Same architecture grammar as C04 (without max-pooling: the statement covers linear layers and element-wise activations).
Oracle: mc.dls_common.rescale_multipliers - forward x and reference separately, then backward layer by layer: linear layers via
the vector-Jacobian product of that layer alone, activations by (out(x)-out(ref))/(in(x)-in(ref)) or the ordinary derivative
where |in(x)-in(ref)| < 1e-6; cases with a difference in (1e-7, 1e-5) are excluded as the property says.  Plus closed forms for
affine models (bias independence, hypothetical projection) and designed near-coincident inputs at every decade of the switch.
"""
import torch

from mc import dls_common as D
from mc.common import call
from mc.report import Recorder

PID = "C05"
LEVEL = "exploration"
REDUCED = {'quick': 'depth-2 skeletons: every activation in every slot plus a diagonal of activation pairs; depth 3 only in thorough', 'thorough': 'depth-3 skeletons: every activation in every slot while the other slots cycle'}
RULE = ("programs = architectures from the grammar (no max-pool) x 6 examples x 6 references x targets; every multiplier entry is "
        "compared with the independent evaluator; non-trivial = architectures with >= 1 activation; separately counted: designed "
        "near-coincident cases (|delta_in| from 1e-2 down to 0) per activation and entries evaluated with the derivative rule")
ASSUMPTIONS = ["float64, quarter-integer weights; relative tolerance 1e-9", "cases with |delta_in| in (1e-7, 1e-5) anywhere are excluded (ambiguous band around the 1e-6 switch)",
               "RReLU is evaluated in eval mode (deterministic slope), as deep_lift_shap switches the model to eval"]


def bound(tier):
    return ("depth <= 2 skeletons without max-pool, every activation in every slot (reduced), L=8; designed near-coincident cases for all 16 activations"
            if tier == "quick" else
            "depth <= 2 exhaustively, depth 3 with every activation in every slot, L in {6,8}, 3 weight tables; designed near-coincident cases for all 16 activations x 8 magnitudes")


def shards(tier, seed):
    out = []
    for sk, depth in D.SKELETONS.items():
        if "M" in sk or (tier == "quick" and depth > 2):
            continue
        for L in ((8,) if tier == "quick" else (6, 8)):
            out.append(dict(name="%s/L%d" % (sk, L), kind="arch", sk=sk, L=L, weight=(16 ** min(sk.count("A"), 2)) * 10))
    out.append(dict(name="long/L69536", kind="long", L=69536, weight=3000))
    out.append(dict(name="registered_activations", kind="extra_acts", weight=80))
    out.append(dict(name="affine", kind="affine", weight=50))
    out.append(dict(name="near_coincident", kind="near", weight=100))
    return out


def close(a, b, tol=1e-9):
    return bool(((a - b).abs() <= tol * torch.clamp(b.abs(), min=1.0)).all())


def _observer(module, inputs, output):
    """a caller's own passive forward hook (activation recording)"""
    return None


def check_arch(rec, name, model, X, R, seed, stats, nested_mode=0, user_hooks=False, ref_dtype=None):
    from tangermeme.deep_lift_shap import deep_lift_shap
    n_out = model[-1].out_features
    flat = model
    if nested_mode:
        model = D.nest(flat, nested_mode)       # same layer objects, nested containers / custom wrapper
    model.train()
    handles = []
    if user_hooks:
        # the caller observes every activation (and the first layer) with forward hooks of their own: the rules still apply
        for m in flat:
            if type(m).__name__ in D.ACTS or m is flat[0]:
                handles.append(m.register_forward_hook(_observer))
    try:
        _check_arch(rec, name, model, flat, X, R, seed, stats, ref_dtype)
    finally:
        for h in handles:
            h.remove()


def _check_arch(rec, name, model, flat, X, R, seed, stats, ref_dtype):
    from tangermeme.deep_lift_shap import deep_lift_shap
    n_out = flat[-1].out_features
    Xr = X[:, None].expand(-1, R.shape[1], -1, -1).reshape(-1, *X.shape[1:])
    Rr = R.reshape(-1, *R.shape[2:])
    import copy
    ref_model = copy.deepcopy(flat)
    # the references may be stored in another floating type than X (one-hot / 0 / 0.25 values are exact in every float type)
    Rcall = R if ref_dtype is None else R.to(ref_dtype)
    for target in range(n_out):
        exp, band, nder = D.rescale_multipliers(ref_model, Xr, Rr, target)
        stats["derivative_entries"] += nder
        if band:
            stats["excluded_band"] += 1
            continue
        exp = exp.reshape(R.shape)
        case = dict(fn="deep_lift_shap", arch=name, L=X.shape[-1], target=target, weights_seed=seed)
        st, raw = call(deep_lift_shap, model, X, target=target, references=Rcall, batch_size=7, raw_outputs=True, device="cpu")
        stats["calls"] += 1
        if st != "ok":
            rec.violation("dls:raises", case, observed=raw)
            return
        if tuple(raw.shape) != tuple(exp.shape) or not close(raw, exp):
            idx = ((raw - exp).abs() > 1e-9 * torch.clamp(exp.abs(), min=1.0)).nonzero()[0].tolist() if tuple(raw.shape) == tuple(exp.shape) else []
            rec.violation("dls:multipliers_differ_from_rescale_rule", dict(case, index=idx),
                          expected=float(exp[tuple(idx)]) if idx else list(exp.shape), observed=float(raw[tuple(idx)]) if idx else list(raw.shape))
            return
        # processed / hypothetical outputs are the documented functions of the multipliers
        hyp = torch.stack([((torch.eye(D.A, dtype=torch.float64)[k][None, None, :, None] - R) * exp).sum(dim=2) for k in range(D.A)], dim=2).mean(dim=1)
        st, h = call(deep_lift_shap, model, X, target=target, references=Rcall, batch_size=64, hypothetical=True, device="cpu")
        if st != "ok" or not close(h, hyp):
            rec.violation("dls:hypothetical_differs", case, observed=h if st != "ok" else None)
            return
        st, a = call(deep_lift_shap, model, X, target=target, references=Rcall, batch_size=5, device="cpu")
        if st != "ok" or not close(a, hyp * X):
            rec.violation("dls:attributions_differ", case, observed=a if st != "ok" else None)
            return
    rec.observe(name)
    stats["ok"] += 1


def override_then_default(rec, name, model, X, R, seed, stats):
    """call history: a call that overrides the built-in rules of this model's activation types, then the default call."""
    from tangermeme.deep_lift_shap import deep_lift_shap
    import warnings
    types = {type(m) for m in model.modules() if type(m).__name__ in D.ACTS}
    if not types:
        return
    with warnings.catch_warnings():
        warnings.simplefilter("ignore")
        call(deep_lift_shap, model, X[:2], references=R[:2, :2], device="cpu", warning_threshold=1e9,
             additional_nonlinear_ops={t: (lambda module, grad_input, grad_output: grad_input) for t in types})
    rec.count("programs_after_override")
    check_arch(rec, name + "|after_override", model, X, R, seed, stats)


def run_long(rec, sh, tier, seed):
    """Sequences longer than 2^16 positions, not a multiple of it."""
    L = sh["L"]
    X, R = D.inputs(L, seed)
    X, R = X[:2], R[:2, 2:]
    stats = dict(calls=0, ok=0, skipped_unbuildable=0, excluded_band=0, derivative_entries=0)
    model = D.build("CAF", ("ReLU",), ((3, 1, 1, 1),), 2, L, 2, seed % 3)
    with torch.no_grad():
        model[-1].weight.mul_(64.0 / L)
    rec.case(1, 1)
    rec.count("programs")
    check_arch(rec, "CAF|ReLU|long|w%d" % (seed % 3), model, X, R, seed, stats)
    for k, v in stats.items():
        rec.count(k, v)
    rec.sample(dict(kind="long", L=L))


def run_arch(rec, sh, tier, seed):
    sk, L = sh["sk"], sh["L"]
    X, R = D.inputs(L, seed)
    stats = dict(calls=0, ok=0, skipped_unbuildable=0, excluded_band=0, derivative_entries=0)
    depth = D.SKELETONS[sk]
    archs = [a for a in D.architectures(3, tier != "quick", seed) if a[1] == sk]
    if tier == "quick" and depth == 2:
        archs = [a for a in archs if len(a[2]) < 2 or (D.ACTS.index(a[2][0]) + D.ACTS.index(a[2][1])) % 4 == 1 or a[2][0] == a[2][1]]
    n = 0
    for (name, sk_, acts, convs, pool) in archs:
        for ws in ((seed % 3,) if tier == "quick" else (0, 1, 2)):
            model = D.build(sk_, acts, convs, pool, L, 2, ws)
            if model is None:
                stats["skipped_unbuildable"] += 1
                continue
            n += 1
            rec.case(1, int(depth >= 1))
            rec.count("programs")
            check_arch(rec, "%s|w%d" % (name, ws), model, X, R, seed, stats)
            if n % 3 == 0 and len(model) >= 3:
                rec.count("programs_nested")
                check_arch(rec, "%s|w%d|nested%d" % (name, ws, 1 + (n // 3) % 2), model, X, R, seed, stats, nested_mode=1 + (n // 3) % 2)
            if n % 4 == 1:
                override_then_default(rec, "%s|w%d" % (name, ws), model, X, R, seed, stats)
            if n % 5 == 2:
                rec.count("programs_with_user_hooks")
                check_arch(rec, "%s|w%d|userhooks" % (name, ws), model, X, R, seed, stats, user_hooks=True)
            if n % 5 == 4:
                rec.count("programs_with_float32_references")
                check_arch(rec, "%s|w%d|ref32" % (name, ws), model, X, R, seed, stats, ref_dtype=torch.float32)
    for k, v in stats.items():
        rec.count(k, v)
    rec.sample(dict(skeleton=sk, L=L, architectures=n, example=archs[len(archs) // 2][0] if archs else None))


def run_affine(rec, tier, seed):
    """affine model: attr[c,pos] = x[c,pos] * mean_j sum_c' W[c',pos](x-ref_j)[c',pos], independent of the bias."""
    from tangermeme.deep_lift_shap import deep_lift_shap
    for L in (6, 8):
        X, R = D.inputs(L, seed)
        for ws in (0, 1, 2):
            model = D.build("F", (), (), 2, L, 3, ws)
            W = model[-1].weight.detach().reshape(3, D.A, L)
            for target in range(3):
                exp_m = W[target][None, None].expand(6, 6, -1, -1)
                exp_attr = X * ((X[:, None] - R) * exp_m).sum(dim=2).mean(dim=1)[:, None, :]
                case = dict(fn="deep_lift_shap", arch="affine L=%d w%d" % (L, ws), target=target)
                for bias_shift in (0.0, 7.5):
                    with torch.no_grad():
                        model[-1].bias.add_(bias_shift)
                    for rdt in (torch.float64, torch.float32):
                        st, raw = call(deep_lift_shap, model, X, target=target, references=R.to(rdt), raw_outputs=True, device="cpu")
                        st2, attr = call(deep_lift_shap, model, X, target=target, references=R.to(rdt), device="cpu", batch_size=11)
                        rec.case(1, 1)
                        if st != "ok" or st2 != "ok" or not close(raw, exp_m, 1e-12) or not close(attr, exp_attr, 1e-12):
                            rec.violation("dls:affine_closed_form", dict(case, bias_shift=bias_shift, references_dtype=str(rdt)), observed=raw if st != "ok" else None)
                    with torch.no_grad():
                        model[-1].bias.sub_(bias_shift)
                rec.observe(L, ws, target)
    rec.sample(dict(kind="affine", lengths=[6, 8], bias_shifts=[0, 7.5]))


def run_extra_acts(rec, tier, seed):
    """Element-wise activations that are NOT in the library's table, registered the documented way
    (additional_nonlinear_ops={type: the library's own rescale handler}): same rule, same multipliers."""
    import copy
    from tangermeme.deep_lift_shap import deep_lift_shap, _nonlinear
    L = 8
    X, R = D.inputs(L, seed)
    Xr = X[:, None].expand(-1, R.shape[1], -1, -1).reshape(-1, *X.shape[1:])
    Rr = R.reshape(-1, *R.shape[2:])
    g = torch.Generator().manual_seed(55 + seed)
    extra = [torch.nn.Softsign, torch.nn.Hardtanh, torch.nn.Tanhshrink, torch.nn.Hardsigmoid, torch.nn.Hardswish, torch.nn.Softmin]
    for cls in extra[:5]:
        for builtin_too in (False, True):
            conv = torch.nn.Conv1d(D.A, 3, 3, padding=1).double()
            lin = torch.nn.Linear(3 * L, 2).double()
            with torch.no_grad():
                for p_ in list(conv.parameters()) + list(lin.parameters()):
                    p_.copy_(torch.randint(-4, 5, p_.shape, generator=g).double() / 4.0)
            layers = [conv, cls()] + ([torch.nn.Conv1d(3, 3, 1).double(), torch.nn.Tanh()] if builtin_too else []) + [torch.nn.Flatten(), lin]
            if builtin_too:
                with torch.no_grad():
                    for p_ in layers[2].parameters():
                        p_.copy_(torch.randint(-4, 5, p_.shape, generator=g).double() / 4.0)
            model = torch.nn.Sequential(*layers)
            for target in (0, 1):
                exp, band, nder = D.rescale_multipliers(copy.deepcopy(model), Xr, Rr, target)
                case = dict(fn="deep_lift_shap", arch="Conv-%s%s-Flatten-Linear" % (cls.__name__, "-Conv-Tanh" if builtin_too else ""), target=target,
                            additional_nonlinear_ops="{%s: _nonlinear}" % cls.__name__, weights_seed=seed)
                rec.case(1, 1)
                if band:
                    rec.count("excluded_band")
                    continue
                st, raw = call(deep_lift_shap, model, X, target=target, references=R, batch_size=7, raw_outputs=True, device="cpu",
                               additional_nonlinear_ops={cls: _nonlinear})
                if st != "ok" or tuple(raw.shape) != tuple(R.shape) or not close(raw, exp.reshape(R.shape)):
                    rec.violation("dls:multipliers_differ_from_rescale_rule:registered_activation", case, observed=raw if st != "ok" else None)
    rec.sample(dict(kind="extra_acts", activations=[c.__name__ for c in extra[:5]]))


def run_near(rec, tier, seed):
    """Designed near-coincident pre-activations: Flatten -> Linear -> ACT -> Linear where one hidden unit has delta_in = d."""
    from tangermeme.deep_lift_shap import deep_lift_shap
    L = 4
    X = torch.zeros(1, D.A, L, dtype=torch.float64)
    X[0, [0, 1, 2, 3], torch.arange(L)] = 1
    Rf = X.clone()
    Rf[0, :, 0] = 0
    Rf[0, 2, 0] = 1                       # reference differs from x only at position 0 (A -> G)
    R = Rf[None]                          # (1, 1, 4, L)
    mags = [1e-2, 1e-3, 1e-4, 5e-5, 2e-5, 1.5e-6, 5e-8, 0.0]
    n_checked = 0
    for act in D.ACTS:
        for d in mags:
            for base in (0.6, -0.4, 2.0):
                lin1 = torch.nn.Linear(D.A * L, 3).double()
                lin2 = torch.nn.Linear(3, 2).double()
                with torch.no_grad():
                    lin1.weight.zero_()
                    lin1.bias.copy_(torch.tensor([base, 0.25, -0.5]))
                    W = lin1.weight.view(3, D.A, L)
                    W[0, 0, 0] = d            # unit 0: x has A at position 0 -> +d ; reference has G -> +0 : delta_in = d
                    W[1, 0, 0] = 1.0          # unit 1: a large difference
                    W[2, 1, 1] = 0.5          # unit 2: identical inputs (delta_in = 0 exactly)
                    lin2.weight.copy_(torch.tensor([[1.0, -2.0, 0.5], [0.25, 1.0, -1.0]]))
                    lin2.bias.zero_()
                model = torch.nn.Sequential(torch.nn.Flatten(), lin1, D.make_act(act), lin2)
                import copy
                exp, band, nder = D.rescale_multipliers(copy.deepcopy(model), X, Rf, 0)
                case = dict(fn="deep_lift_shap", arch="Flatten-Linear-%s-Linear" % act, delta_in=d, base=base)
                rec.case(1, 1)
                if band:
                    rec.count("excluded_band")
                    continue
                st, raw = call(deep_lift_shap, model, X, target=0, references=R, raw_outputs=True, device="cpu")
                n_checked += 1
                if st != "ok" or not close(raw[0], exp):
                    rec.violation("dls:near_coincident_multiplier_wrong", case, expected=exp[0, :, 0], observed=raw[0, 0, :, 0] if st == "ok" else raw)
                rec.observe(act, d, base)
    rec.count("near_coincident_cases_checked", n_checked)
    rec.sample(dict(kind="near_coincident", activations=D.ACTS, delta_in=mags, bases=[0.6, -0.4, 2.0]))


def run_shard(sh, tier, seed):
    rec = Recorder(PID, sh["name"])
    if sh["kind"] == "arch":
        run_arch(rec, sh, tier, seed)
    elif sh["kind"] == "long":
        run_long(rec, sh, tier, seed)
    elif sh["kind"] == "extra_acts":
        run_extra_acts(rec, tier, seed)
    elif sh["kind"] == "affine":
        run_affine(rec, tier, seed)
    else:
        run_near(rec, tier, seed)
    return rec.result()


def replay(v):
    from mc.props.c04 import _parse
    c = v["case"]
    rec = Recorder(PID, "replay")
    if "additional_nonlinear_ops" in c:
        run_extra_acts(rec, "quick", c.get("weights_seed", 0))
    elif "|long|" in c.get("arch", ""):
        run_long(rec, dict(L=c["L"]), "quick", c.get("weights_seed", 0))
    elif "|after_override" in c.get("arch", ""):
        sk, acts, convs, pool, ws = _parse(c["arch"])
        X, R = D.inputs(c["L"], c.get("weights_seed", 0))
        model = D.build(sk, acts, convs, pool, c["L"], 2, ws)
        override_then_default(rec, c["arch"].replace("|after_override", ""), model, X, R, c.get("weights_seed", 0),
                              dict(calls=0, ok=0, skipped_unbuildable=0, excluded_band=0, derivative_entries=0))
    elif "|" in c.get("arch", ""):
        sk, acts, convs, pool, ws = _parse(c["arch"])
        X, R = D.inputs(c["L"], c.get("weights_seed", 0))
        model = D.build(sk, acts, convs, pool, c["L"], 2, ws)
        check_arch(rec, c["arch"], model, X, R, c.get("weights_seed", 0), dict(calls=0, ok=0, skipped_unbuildable=0, excluded_band=0, derivative_entries=0),
                   nested_mode=int(c["arch"][-1]) if "|nested" in c["arch"] else 0, user_hooks="|userhooks" in c["arch"],
                   ref_dtype=torch.float32 if "|ref32" in c["arch"] else None)
    elif c.get("arch", "").startswith("affine"):
        run_affine(rec, "quick", 0)
    else:
        run_near(rec, "quick", 0)
    hit = [x for x in rec.violations if x["sig"] == v["sig"]]
    return (not hit), "replayed %s: %s" % (c.get("arch"), hit[:1] or "multipliers equal the independent rescale-rule evaluation")
