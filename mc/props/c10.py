"""C10 - variant-effect functions evaluate exactly the string-level edited sequences.

The tensors reaching `func` are captured through predict() with an identity model (output = input,
plus the per-example extra argument), so X and X_var themselves are observed.  Exhaustive over
batches of 1-3 sequences, every subset of <=3 deleted positions per example (independently per
example, both trim sides), every set of <=2 distinct insertion coordinates x characters, every
<=2 substitution rows per example (incl. duplicates, conflicts, out-of-range rows).
Reference: Python string edits.
"""
import itertools

import numpy
import torch

from mc.common import call, decode, ohe
from mc.report import Recorder

PID = "C10"
LEVEL = "exploration"
RULE = ("cases = (function, batch of sequences, per-example variant lists, trim side) enumerated completely in the bound, "
        "duplicate-free by construction; non-trivial = at least one variant listed; for deletions additionally counted: "
        "cases with a deleted position inside the trimmed flank")
ASSUMPTIONS = ["indices are non-negative (negative indices are Python-style wrapping in torch and are outside the enumerated domain)",
               "insertions at distinct coordinates per example"]
A = 4


class Ident(torch.nn.Module):
    def forward(self, X, *args):
        if args:
            return X, args[0]
        return X


def bound(tier):
    return ("B<=2 with L in 4..6 (B=1: all subsets <=3; B=2: all pairs of subsets <=2), insertions <=2 per example L<=5, substitutions <=2 rows"
            if tier == "quick" else
            "B=1: L 4..9 subsets<=3; B=2: L 4..7 all pairs of subsets<=3; B=3: L 4..5 all triples of subsets<=3 (L=6: <=2); insertions <=2 coords per example x all chars, B<=2, L<=6; substitutions <=2 rows per example B<=2")


def shards(tier, seed):
    out = []
    if tier == "quick":
        dels = [(1, 4), (1, 5), (1, 6), (2, 4), (2, 5), (3, 4)]
    else:
        dels = [(1, L) for L in range(4, 10)] + [(2, L) for L in range(4, 8)] + [(3, 4), (3, 5), (3, 6)]
    for B, L in dels:
        for left in (False, True):
            out.append(dict(name="del/B%d/L%d/%s" % (B, L, "left" if left else "right"), kind="del", B=B, L=L, left=left,
                            weight=(L ** 3) ** B))
    ins = [(1, 4), (1, 5), (2, 4)] if tier == "quick" else [(1, 4), (1, 5), (1, 6), (2, 4), (2, 5)]
    for B, L in ins:
        out.append(dict(name="ins/B%d/L%d" % (B, L), kind="ins", B=B, L=L, weight=(L * 4) ** (2 * B)))
    subs = [(1, 4), (2, 4)] if tier == "quick" else [(1, 4), (1, 6), (2, 4), (2, 5), (3, 4)]
    for B, L in subs:
        out.append(dict(name="sub/B%d/L%d" % (B, L), kind="sub", B=B, L=L, weight=(L * 4) ** (2 * min(B, 2))))
    out.append(dict(name="history", kind="history", B=1, L=4, weight=3000))
    out.append(dict(name="long", kind="long", B=3, L=300, weight=3000))
    out.append(dict(name="many", kind="many", B=5, L=4600, weight=3000))
    return out


def _seqs(B, L, seed):
    """B sequences in which every position is identifiable (cyclic ACGT with different phases + a twist)."""
    rows = []
    for b in range(B):
        rows.append([(i + b + (i // 4) * (b + 1) + seed) % A for i in range(L)])
    return numpy.array(rows, dtype=numpy.int64)


def _capture(fn, X, variants, left, with_args, B):
    model = Ident()
    kw = dict(device="cpu", batch_size=2)
    if left is not None:
        kw["left"] = left
    args = None
    if with_args:
        args = (torch.arange(B, dtype=torch.float32)[:, None] + 10,)
    st, val = call(fn, model, X, variants, args=args, **kw)
    if st != "ok":
        return st, val, None
    yb, ya = val
    ok_args = True
    if with_args:
        ok_args = torch.equal(yb[1], args[0]) and torch.equal(ya[1], args[0])
        yb, ya = yb[0], ya[0]
    return "ok", (yb, ya), ok_args


def _subsets(L, kmax):
    out = []
    for k in range(kmax + 1):
        out.extend(itertools.combinations(range(L), k))
    return out


def run_del(rec, sh, tier, seed):
    from tangermeme.variant_effect import deletion_effect
    B, L, left = sh["B"], sh["L"], sh["left"]
    codes = _seqs(B, L, seed)
    X = ohe(codes, A)
    Xc = X.clone()
    kmax = 3
    if tier == "quick" and B >= 2:
        kmax = 2
    if B == 3 and L >= 6:
        kmax = 2
    subs = _subsets(L, kmax)
    n_edge = 0
    for combo in itertools.product(subs, repeat=B):
        rows = [(b, p) for b in range(B) for p in combo[b]]
        # row order must not matter: use a rotated order
        rows = rows[len(rows) // 2:] + rows[:len(rows) // 2]
        dele = torch.tensor(rows, dtype=torch.int64).reshape(-1, 2)
        m = max(len(c) for c in combo)
        exp_after, exp_before = [], []
        edge = False
        for b in range(B):
            s = [c for i, c in enumerate(codes[b]) if i not in combo[b]]
            t = m - len(combo[b])
            kept_idx = [i for i in range(L) if i not in combo[b]]
            if left:
                s = s[t:]
                exp_before.append(list(codes[b][m:]))
                trimmed_upto = kept_idx[t] if t < len(kept_idx) else L
                edge = edge or any(p < trimmed_upto for p in combo[b])
            else:
                s = s[:len(s) - t]
                exp_before.append(list(codes[b][:L - m]))
                trimmed_from = kept_idx[len(kept_idx) - t - 1] if t < len(kept_idx) else -1
                edge = edge or any(p > trimmed_from for p in combo[b])
            exp_after.append(s)
        n_edge += int(edge)
        case = dict(fn="deletion_effect", seqs=["".join("ACGT"[c] for c in r) for r in codes], deletions=rows, left=left)
        with_args = (len(rows) % 2 == 1)
        st, val, ok_args = _capture(deletion_effect, X, dele, left, with_args, B)
        rec.case(1, int(len(rows) > 0))
        kind = "edge" if edge else "interior"
        if st != "ok":
            rec.violation("deletion_effect:raises:" + kind, case, observed=val)
            continue
        yb, ya = val
        eb, ea = numpy.array(exp_before).reshape(B, -1), numpy.array(exp_after).reshape(B, -1)
        if tuple(ya.shape) != (B, A, L - m) or tuple(yb.shape) != (B, A, L - m):
            rec.violation("deletion_effect:wrong_length:" + kind, case, expected=[B, A, L - m], observed=[list(yb.shape), list(ya.shape)])
            continue
        gb, okb = decode(yb)
        ga, oka = decode(ya)
        if not (okb and oka):
            rec.violation("deletion_effect:not_one_hot:" + kind, case)
            continue
        if not numpy.array_equal(ga, ea):
            rec.violation("deletion_effect:after_wrong:" + kind, case, expected=ea, observed=ga)
            continue
        if not numpy.array_equal(gb, eb):
            rec.violation("deletion_effect:before_wrong:" + kind, case, expected=eb, observed=gb)
            continue
        if not ok_args:
            rec.violation("deletion_effect:args_misaligned", case)
        if not torch.equal(X, Xc):
            rec.violation("deletion_effect:input_modified", case)
            X = Xc.clone()
        rec.observe(rows, ga.sum())
    rec.count("deletion_cases_touching_trimmed_flank", n_edge)
    rec.sample(dict(kind="del", B=B, L=L, left=left, subsets_per_example=len(subs), seqs=["".join("ACGT"[c] for c in r) for r in codes]))


def run_ins(rec, sh, tier, seed):
    from tangermeme.variant_effect import insertion_effect
    B, L = sh["B"], sh["L"]
    codes = _seqs(B, L, seed)
    X = ohe(codes, A)
    Xc = X.clone()
    per = [()]
    for j in range(L + 1):
        for c in range(A):
            per.append(((j, c),))
    for j1, j2 in itertools.combinations(range(L + 1), 2):
        for c1 in range(A):
            for c2 in range(A):
                per.append(((j1, c1), (j2, c2)))
                per.append(((j2, c2), (j1, c1)))   # row order must not matter
    if B == 2:
        keep = (3,) if tier == "quick" else (0, 3)   # fewer characters keep the product small
        per = [p for p in per if all(c in keep for _, c in p)]
    for combo in itertools.product(per, repeat=B):
        rows = [(b, j, c) for b in range(B) for (j, c) in combo[b]]
        ins = torch.tensor(rows, dtype=torch.int64).reshape(-1, 3)
        at_end = any(j == L for _, j, _ in rows)
        for left in (False, True):
            exp = []
            for b in range(B):
                s = list(codes[b])
                for j, c in sorted(combo[b], key=lambda t: -t[0]):
                    s = s[:j] + [c] + s[j:]
                exp.append(s[-L:] if left else s[:L])
            case = dict(fn="insertion_effect", seqs=["".join("ACGT"[c] for c in r) for r in codes], insertions=rows, left=left)
            with_args = (len(rows) % 2 == 1)
            st, val, ok_args = _capture(insertion_effect, X, ins, left, with_args, B)
            rec.case(1, int(len(rows) > 0))
            if st != "ok":
                if at_end:
                    rec.count("insertion_at_len_rejected")
                    continue   # coordinate L is not an original coordinate: rejection is acceptable
                rec.violation("insertion_effect:raises", case, observed=val)
                continue
            yb, ya = val
            if tuple(ya.shape) != (B, A, L):
                rec.violation("insertion_effect:wrong_length", case, observed=list(ya.shape))
                continue
            ga, oka = decode(ya)
            gb, okb = decode(yb)
            if not (oka and okb):
                rec.violation("insertion_effect:not_one_hot", case)
                continue
            if not numpy.array_equal(ga, numpy.array(exp)):
                rec.violation("insertion_effect:after_wrong", case, expected=exp, observed=ga)
                continue
            if not numpy.array_equal(gb, codes):
                rec.violation("insertion_effect:before_wrong", case, expected=codes, observed=gb)
            if not ok_args:
                rec.violation("insertion_effect:args_misaligned", case)
            if not torch.equal(X, Xc):
                rec.violation("insertion_effect:input_modified", case)
                X = Xc.clone()
            rec.observe(rows, left, ga.sum())
    # out-of-range coordinates must raise
    for bad in ([(0, L + 1, 0)], [(0, -1, 0)], [(0, 0, A)], [(B, 0, 0)]):
        st, val, _ = _capture(insertion_effect, X, torch.tensor(bad), False, False, B)
        rec.case(1, 1)
        if st == "ok":
            ga, _ = decode(val[1])
            if bad[0][0] == B and numpy.array_equal(ga, codes):
                continue   # a row for a non-existent example that changes nothing is not a wrong edit
            rec.violation("insertion_effect:accepts_out_of_range", dict(fn="insertion_effect", insertions=bad, L=L, B=B), observed=ga)
    rec.sample(dict(kind="ins", B=B, L=L, per_example_lists=len(per)))


def run_sub(rec, sh, tier, seed):
    from tangermeme.variant_effect import substitution_effect
    B, L = sh["B"], sh["L"]
    codes = _seqs(B, L, seed)
    X = ohe(codes, A)
    Xc = X.clone()
    cells = [(p, c) for p in range(L) for c in range(A)]
    per = [()] + [(x,) for x in cells] + [(x, y) for x in cells for y in cells]
    if B >= 2:
        per = [()] + [(x,) for x in cells] + [(x, y) for x in cells for y in cells if x[1] in (0, 2) and y[1] in (0, 3) and abs(x[0] - y[0]) <= 1]
    combos = itertools.product(per, repeat=min(B, 2))
    for combo in combos:
        combo = tuple(combo) + ((),) * (B - len(combo))
        rows = [(b, p, c) for b in range(B) for (p, c) in combo[b]]
        subs = torch.tensor(rows, dtype=torch.int64).reshape(-1, 3)
        conflict = any(len({c for (p2, c) in combo[b] if p2 == p}) > 1 for b in range(B) for (p, _) in combo[b])
        exp = codes.copy()
        for b, p, c in rows:
            exp[b, p] = c
        case = dict(fn="substitution_effect", seqs=["".join("ACGT"[c] for c in r) for r in codes], substitutions=rows)
        with_args = (len(rows) % 2 == 1)
        st, val, ok_args = _capture(substitution_effect, X, subs, None, with_args, B)
        rec.case(1, int(len(rows) > 0))
        if conflict:
            rec.count("conflicting_substitution_lists")
            if st != "ok":
                continue      # cannot be honoured -> raising is the stated behaviour
            ga, oka = decode(val[1])
            allowed = all(ga[b, p] in {c for (p2, c) in combo[b] if p2 == p} for b in range(B) for (p, _) in combo[b])
            rest_ok = all(ga[b, p] == codes[b, p] for b in range(B) for p in range(L) if p not in {q for q, _ in combo[b]})
            if not (oka and allowed and rest_ok):
                rec.violation("substitution_effect:conflict_not_rejected", case, expected="raise (or one of the listed characters)",
                              observed=val[1][0], msg="conflicting rows produced a sequence that is not a valid edit (e.g. two-hot column)")
            continue
        if st != "ok":
            rec.violation("substitution_effect:raises", case, observed=val)
            continue
        yb, ya = val
        ga, oka = decode(ya)
        gb, okb = decode(yb)
        if not (oka and okb) or tuple(ya.shape) != (B, A, L):
            rec.violation("substitution_effect:not_one_hot", case)
            continue
        if not numpy.array_equal(ga, exp):
            rec.violation("substitution_effect:after_wrong", case, expected=exp, observed=ga)
            continue
        if not numpy.array_equal(gb, codes):
            rec.violation("substitution_effect:before_wrong", case, expected=codes, observed=gb)
        if not ok_args:
            rec.violation("substitution_effect:args_misaligned", case)
        if not torch.equal(X, Xc):
            rec.violation("substitution_effect:input_modified", case)
            X = Xc.clone()
        rec.observe(rows, ga.sum())
    # positions counted from the end: either the edit Python indexing denotes (position L+p) or a loud refusal - never another edit
    for p_neg in (-1, -2, -L):
        for b_ in range(B):
            rows = [(b_, p_neg, (int(codes[b_, L + p_neg]) + 1) % A)]
            st, val, _ = _capture(substitution_effect, X, torch.tensor(rows), None, False, B)
            rec.case(1, 1)
            if st != "ok":
                rec.count("refused_negative_position")
                continue
            exp = codes.copy()
            exp[b_, L + p_neg] = rows[0][2]
            ga, oka = decode(val[1])
            if not oka or not numpy.array_equal(ga, exp):
                rec.violation("substitution_effect:negative_position_edits_elsewhere", dict(fn="substitution_effect", substitutions=rows, L=L, B=B),
                              expected=exp[b_], observed=ga[b_] if oka else "<not one-hot>")
    for bad in ([(0, L, 0)], [(B, 0, 0)], [(0, 0, A)]):
        st, val, _ = _capture(substitution_effect, X, torch.tensor(bad), None, False, B)
        rec.case(1, 1)
        if st == "ok":
            rec.violation("substitution_effect:accepts_out_of_range", dict(fn="substitution_effect", substitutions=bad, L=L, B=B))
    rec.sample(dict(kind="sub", B=B, L=L, per_example_lists=len(per)))


def run_long(rec, tier, seed):
    """Long sequences, several examples, variants at positions around 8-bit boundaries and at both ends; numpy index arrays as well as tensors."""
    from tangermeme.variant_effect import deletion_effect, insertion_effect, substitution_effect
    B, L = 5, 300
    rs = numpy.random.RandomState(17 + seed)
    codes = rs.randint(0, A, (B, L))
    X = ohe(codes, A)
    Xc = X.clone()
    pos = [0, 1, 126, 127, 128, 129, 254, 255, 256, 257, L - 2, L - 1]
    import itertools as it
    sets = [c for k in (1, 2, 3) for c in it.combinations(pos, k)][::7]
    for si, ps in enumerate(sets):
        per = {b: tuple(sorted(set(pos[(si + b + j) % len(pos)] for j in range((si + b) % 4)))) for b in range(B)}
        per[0] = ps
        # deletions (the trim side also as numpy.bool_ - e.g. an element of `strands == '-'` - and as 0 / 1)
        for left in (False, True, numpy.bool_(True), numpy.bool_(False), 1, 0)[si % 2::2] + (False, True):
            rows = [(b, p) for b in range(B) for p in per[b]]
            m = max(len(v) for v in per.values())
            exp_a, exp_b = [], []
            for b in range(B):
                s_ = [c for i, c in enumerate(codes[b]) if i not in per[b]]
                t = m - len(per[b])
                exp_a.append(s_[t:] if left else s_[:len(s_) - t])
                exp_b.append(list(codes[b][m:]) if left else list(codes[b][:L - m]))
            st, val, ok_args = _capture(deletion_effect, X, torch.tensor(rows, dtype=torch.int64).reshape(-1, 2), left, True, B)
            rec.case(1, 1)
            case = dict(fn="deletion_effect", L=L, B=B, deletions=rows, left=repr(left), seqs="rs(17+seed)")
            if st != "ok":
                rec.violation("deletion_effect:raises:long", case, observed=val)
                continue
            ga, oka = decode(val[1])
            gb, okb = decode(val[0])
            if not (oka and okb) or not numpy.array_equal(ga, numpy.array(exp_a)) or not numpy.array_equal(gb, numpy.array(exp_b)) or not ok_args:
                rec.violation("deletion_effect:after_wrong:long", case)
        # insertions (distinct coordinates per example)
        rows = [(b, p, (p + b) % A) for b in range(B) for p in per[b]]
        for left in (False, True, numpy.bool_(True), numpy.bool_(False), 1, 0)[si % 2::2] + (False, True):
            exp = []
            for b in range(B):
                s_ = list(codes[b])
                for p in sorted(per[b], reverse=True):
                    s_ = s_[:p] + [(p + b) % A] + s_[p:]
                exp.append(s_[-L:] if left else s_[:L])
            st, val, ok_args = _capture(insertion_effect, X, torch.tensor(rows, dtype=torch.int64).reshape(-1, 3), left, False, B)
            rec.case(1, 1)
            case = dict(fn="insertion_effect", L=L, B=B, insertions=rows, left=repr(left), seqs="rs(17+seed)")
            if st != "ok":
                rec.violation("insertion_effect:raises:long", case, observed=val)
                continue
            ga, oka = decode(val[1])
            if not oka or not numpy.array_equal(ga, numpy.array(exp)) or not numpy.array_equal(decode(val[0])[0], codes):
                rec.violation("insertion_effect:after_wrong:long", case)
        # substitutions
        exp = codes.copy()
        for (b, p, c) in rows:
            exp[b, p] = c
        st, val, ok_args = _capture(substitution_effect, X, torch.tensor(rows, dtype=torch.int64).reshape(-1, 3), None, True, B)
        rec.case(1, 1)
        if st != "ok" or not numpy.array_equal(decode(val[1])[0], exp) or not numpy.array_equal(decode(val[0])[0], codes) or not ok_args:
            rec.violation("substitution_effect:after_wrong:long", dict(fn="substitution_effect", L=L, B=B, substitutions=rows), observed=val if st != "ok" else None)
        # positions counted from the end (L differs from the alphabet size here): Python-semantics edit or loud refusal
        rows_n = [(b, -1 - ((si + b) % 7), int(codes[b, L - 1 - ((si + b) % 7)] + 1) % A) for b in range(B)]
        st, val, _ = _capture(substitution_effect, X, torch.tensor(rows_n, dtype=torch.int64), None, False, B)
        rec.case(1, 1)
        if st != "ok":
            rec.count("refused_negative_position")
        else:
            exp = codes.copy()
            for (b, p, c) in rows_n:
                exp[b, L + p] = c
            ga, oka = decode(val[1])
            if not oka or not numpy.array_equal(ga, exp):
                rec.violation("substitution_effect:negative_position_edits_elsewhere:long", dict(fn="substitution_effect", L=L, B=B, substitutions=rows_n))
        if not torch.equal(X, Xc):
            rec.violation("variant_effect:input_modified:long", dict(fn="long", step=si))
            X = Xc.clone()
        rec.observe(si, rows)
    rec.sample(dict(kind="long", B=B, L=L, positions=pos, variant_sets=len(sets)))


def run_many(rec, tier, seed):
    """Variant tables with many rows (beyond 16 / 255 rows, many variants per example, rows in shuffled order), per-example
    variant counts that differ by more than 256 / 2048, and every storage type for X."""
    from tangermeme.variant_effect import deletion_effect, insertion_effect, substitution_effect
    rs = numpy.random.RandomState(23 + seed)
    dts = [torch.float32, torch.float64, torch.int8, torch.uint8, torch.int64, torch.float16, torch.bfloat16]
    # ---- deletions: counts 4105 / 1 / 521 / 0 / 2 in one call
    B, L = 5, 4600
    codes = rs.randint(0, A, (B, L))
    counts = [4105, 1, 521, 0, 2]
    per = {b: sorted(rs.choice(L, size=counts[b], replace=False).tolist()) for b in range(B)}
    per[1] = [L - 1]
    rows = [(b, p) for b in range(B) for p in per[b]]
    rows = [rows[i] for i in rs.permutation(len(rows))]
    m = max(counts)
    for dt in dts:
        X = ohe(codes, A, dt)
        Xc = X.clone()
        for left in (False, True):
            exp_a, exp_b = [], []
            for b in range(B):
                gone = set(per[b])
                s_ = [c for i, c in enumerate(codes[b]) if i not in gone]
                t = m - len(per[b])
                exp_a.append(s_[t:] if left else s_[:len(s_) - t])
                exp_b.append(list(codes[b][m:]) if left else list(codes[b][:L - m]))
            st, val, ok_args = _capture(deletion_effect, X, torch.tensor(rows, dtype=torch.int64).reshape(-1, 2), left, True, B)
            rec.case(1, 1)
            case = dict(fn="deletion_effect", L=L, B=B, deletions_per_example=counts, left=left, dtype=str(dt), seqs="rs(23+seed)")
            if st != "ok":
                rec.violation("deletion_effect:raises:many", case, observed=val)
                continue
            ga, oka = decode(val[1].float())
            gb, okb = decode(val[0].float())
            if not (oka and okb) or not numpy.array_equal(ga, numpy.array(exp_a)) or not numpy.array_equal(gb, numpy.array(exp_b)) or not ok_args:
                rec.violation("deletion_effect:after_wrong:many", case)
            if not torch.equal(X, Xc):
                rec.violation("variant_effect:input_modified:many", case)
                X = Xc.clone()
    # ---- insertions / substitutions: 17, 24, 200, 300 rows, several per example, shuffled row order
    for (B, L, k) in ((1, 40, 17), (3, 60, 8), (4, 120, 50), (2, 400, 150)):
        codes = rs.randint(0, A, (B, L))
        per = {b: sorted(rs.choice(L, size=k, replace=False).tolist()) for b in range(B)}
        rows = [(b, p, int((p + b) % A)) for b in range(B) for p in per[b]]
        for order in ("sorted", "shuffled"):
            if order == "shuffled":
                rows = [rows[i] for i in rs.permutation(len(rows))]
            for dt in (torch.float32, torch.int8, torch.float16):
                X = ohe(codes, A, dt)
                Xc = X.clone()
                for left in (False, True):
                    exp = []
                    for b in range(B):
                        s_ = list(codes[b])
                        for p in sorted(per[b], reverse=True):
                            s_ = s_[:p] + [(p + b) % A] + s_[p:]
                        exp.append(s_[-L:] if left else s_[:L])
                    st, val, ok_args = _capture(insertion_effect, X, torch.tensor(rows, dtype=torch.int64).reshape(-1, 3), left, False, B)
                    rec.case(1, 1)
                    case = dict(fn="insertion_effect", L=L, B=B, insertions_per_example=k, row_order=order, left=left, dtype=str(dt), seqs="rs(23+seed)")
                    if st != "ok":
                        rec.violation("insertion_effect:raises:many", case, observed=val)
                        continue
                    ga, oka = decode(val[1].float())
                    if not oka or not numpy.array_equal(ga, numpy.array(exp)) or not numpy.array_equal(decode(val[0].float())[0], codes):
                        rec.violation("insertion_effect:after_wrong:many", case)
                exp = codes.copy()
                for (b, p, c) in rows:
                    exp[b, p] = c
                st, val, ok_args = _capture(substitution_effect, X, torch.tensor(rows, dtype=torch.int64).reshape(-1, 3), None, True, B)
                rec.case(1, 1)
                case = dict(fn="substitution_effect", L=L, B=B, substitutions_per_example=k, row_order=order, dtype=str(dt), seqs="rs(23+seed)")
                if st != "ok" or not numpy.array_equal(decode(val[1].float())[0], exp) or not numpy.array_equal(decode(val[0].float())[0], codes) or not ok_args:
                    rec.violation("substitution_effect:after_wrong:many", case, observed=val if st != "ok" else None)
                if not torch.equal(X, Xc):
                    rec.violation("variant_effect:input_modified:many", case)
    # insertions at coordinate 0 of one example and at coordinate L (appending) of another, in every row order; substitutions that name the
    # same column in adjacent examples, once counted from the end and once from the start
    B, L = 3, 6
    codes = rs.randint(0, A, (B, L))
    X = ohe(codes, A, torch.float32)
    import itertools as it
    cells = [(e, p) for e in range(B) for p in (0, L, 3)]
    for pair in it.permutations(cells, 2):
        rows = [(e, p, (e + p) % A) for (e, p) in pair]
        for left in (False, True):
            exp = []
            for b in range(B):
                s_ = list(codes[b])
                for (e, p, c) in sorted([r for r in rows if r[0] == b], key=lambda r: -r[1]):
                    s_ = s_[:p] + [c] + s_[p:]
                n_ins = max(sum(1 for r in rows if r[0] == bb) for bb in range(B))
                # every example ends with the original length: the overhang is trimmed from the chosen side
                exp.append(s_[-L:] if left else s_[:L])
            st, val, _ = _capture(insertion_effect, X, torch.tensor(rows, dtype=torch.int64), left, False, B)
            rec.case(1, 1)
            case = dict(fn="insertion_effect", L=L, B=B, insertions=rows, left=left, seqs="rs(23+seed)")
            if st != "ok":
                rec.violation("insertion_effect:raises:many", case, observed=val)
                continue
            ga, oka = decode(val[1].float())
            if not oka or not numpy.array_equal(ga, numpy.array(exp)):
                rec.violation("insertion_effect:after_wrong:many", case)
    for e in range(1, B):
        for p in (0, 2, L - 1):
            rows = [(e, p - L, (int(codes[e, p]) + 1) % A), (e - 1, p, (int(codes[e - 1, p]) + 2) % A)]
            for rows_ in (rows, rows[::-1]):
                st, val, _ = _capture(substitution_effect, X, torch.tensor(rows_, dtype=torch.int64), None, False, B)
                rec.case(1, 1)
                if st != "ok":
                    rec.count("refused_negative_position")
                    # a refusal must not depend on the OTHER example's row: the negative row alone is accepted or refused the same way
                    st1, _, _ = _capture(substitution_effect, X, torch.tensor(rows[:1], dtype=torch.int64), None, False, B)
                    if st1 == "ok":
                        rec.violation("substitution_effect:rejects_valid:rows_of_different_examples_conflict", dict(fn="substitution_effect", L=L, B=B, substitutions=rows_), observed=val)
                    continue
                exp = codes.copy()
                exp[e, p] = rows[0][2]
                exp[e - 1, p] = rows[1][2]
                ga, oka = decode(val[1].float())
                if not oka or not numpy.array_equal(ga, exp):
                    rec.violation("substitution_effect:negative_position_edits_elsewhere", dict(fn="substitution_effect", L=L, B=B, substitutions=rows_))
    rec.sample(dict(kind="many", deletion_counts=counts, dtypes=[str(d) for d in dts], table_rows=[17, 24, 200, 300]))


def run_shard(sh, tier, seed):
    rec = Recorder(PID, sh["name"])
    if sh["kind"] == "many":
        run_many(rec, tier, seed)
        return rec.result()
    if sh["kind"] == "long":
        run_long(rec, tier, seed)
        return rec.result()
    if sh["kind"] == "history":
        # one process, batch shapes / lengths / functions alternated: nothing may be carried over between calls
        for (kind, B, L, left) in (("del", 1, 4, False), ("del", 2, 5, True), ("sub", 2, 4, None), ("del", 1, 5, True), ("ins", 1, 4, None),
                                   ("del", 2, 4, False), ("sub", 1, 4, None), ("ins", 1, 5, None), ("del", 1, 4, False)):
            {"del": run_del, "ins": run_ins, "sub": run_sub}[kind](rec, dict(B=B, L=L, left=left), "quick", seed)
        return rec.result()
    {"del": run_del, "ins": run_ins, "sub": run_sub}[sh["kind"]](rec, sh, tier, seed)
    return rec.result()


def replay(v):
    from tangermeme import variant_effect as VE
    c = v["case"]
    if v["sig"].endswith(":many") or v["sig"].endswith(":long"):
        rec = Recorder(PID, "replay")
        (run_many if v["sig"].endswith(":many") else run_long)(rec, "quick", 0)
        hit = [x for x in rec.violations if x["sig"] == v["sig"]]
        return (not hit), "re-ran the %s shard: %d violations with signature %s%s" % (
            v["sig"].rsplit(":", 1)[1], len(hit), v["sig"], ("\nfirst: %s" % hit[0]) if hit else "")
    seqs = c["seqs"]
    codes = numpy.array([["ACGT".index(ch) for ch in s] for s in seqs])
    X = ohe(codes, A)
    B = len(seqs)
    fn = getattr(VE, c["fn"])
    key = {"deletion_effect": "deletions", "insertion_effect": "insertions", "substitution_effect": "substitutions"}[c["fn"]]
    ncol = 2 if key == "deletions" else 3
    var = torch.tensor(c[key], dtype=torch.int64).reshape(-1, ncol)
    st, val, _ = _capture(fn, X, var, c.get("left"), False, B)
    if st != "ok":
        obs = val
        ok = False
    else:
        ga, oka = decode(val[1])
        obs = ["".join("ACGT"[k] for k in r) for r in ga] + ([] if oka else ["<not one-hot>"])
        exp = v.get("expected")
        ok = oka and exp is not None and isinstance(exp, list) and numpy.array_equal(numpy.array(exp), ga)
    return ok, "%s(%s, %s=%s, left=%s)\n expected %s\n observed %s" % (c["fn"], seqs, key, c[key], c.get("left"), v.get("expected"), obs)
