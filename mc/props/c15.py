"""C15 - sequence representations convert losslessly and invert one another.

Exhaustive over: alphabets (prefixes of ACGTUXYZ of size 1..8 and permuted ones) x ignore sets x all
strings up to a length bound over alphabet+ignore (plus every single out-of-alphabet character at
every position: must raise) x dtypes; all DNA(+N) strings for reverse_complement (string form vs
tensor form, involution); every (size, overlap, lengths) configuration of chunk/unchunk in the bound.
Reference: direct string indexing / slicing.
"""
import itertools

import numpy
import torch

from mc.common import call
from mc.report import Recorder

PID = "C15"
LEVEL = "exploration"
REDUCED = {'quick': 'history shard: every third string'}
RULE = ("cases = (alphabet, ignore set, string) / (DNA string) / (chunk size, overlap, sequence lengths, channels), "
        "each enumerated completely within the bound and duplicate-free by construction; all are non-trivial "
        "(each has an exact expected value from string indexing)")
ASSUMPTIONS = ["ASCII alphabets only", "unchunk is called with the original lengths (lengths=None is not exercised)"]

DTYPES = ["int8", "uint8", "int32", "int64", "float16", "float32", "float64", "bool"]


def bound(tier):
    return ("strings <=5 (|alphabet|<=4) / <=3 (larger); DNA+N strings <=5; chunk size 1..6, lengths size..3*size+2, 1-2 seqs"
            if tier == "quick" else
            "strings <=6 (|alphabet|<=4) / <=4 (larger); DNA+N strings <=7; chunk size 1..10 (+16, 40), all overlaps, lengths size..3*size+2 and 5-7 chunks, 1-3 seqs, 1-2 channels")


def shards(tier, seed):
    out = []
    # (the last four contain characters that are special in regular-expression character classes: a range-forming '-', a leading '^',
    #  ']' and a backslash)
    alphas = ["ACGTUXYZ"[:k] for k in range(1, 9)] + ["TGCA", "GAT", "XCAZG", "AC-GT", "^AC", "A]C", "A\\C"]
    for al in alphas:
        for ig in ("", "N", "N-", "N^]"):
            if set(ig) & set(al) or (ig == "N^]" and len(al) > 4):
                continue
            out.append(dict(name="ohe/%s/%s" % (al, ig or "none"), kind="ohe", alphabet=al, ignore=ig,
                            weight=(len(al) + len(ig)) ** 4))
    out.append(dict(name="rc", kind="rc", weight=3000))
    out.append(dict(name="long", kind="long", weight=2000))
    out.append(dict(name="history", kind="history", weight=2000))
    sizes = list(range(1, 7)) if tier == "quick" else list(range(1, 11)) + [16, 40]
    for size in sizes:
        out.append(dict(name="chunk/size%d" % size, kind="chunk", size=size, weight=size * 200))
    return out


def run_ohe(rec, sh, tier):
    from tangermeme.utils import characters, one_hot_encode
    al, ig = sh["alphabet"], sh["ignore"]
    A = len(al)
    small = A <= 4
    Lmax = (5 if small else 3) if tier == "quick" else (6 if small else 4)
    symbols = al + ig
    alist, iglist = list(al), list(ig)
    for L in range(0 if False else 1, Lmax + 1):
        for tup in itertools.product(symbols, repeat=L):
            s = "".join(tup)
            st, x = call(one_hot_encode, s, alphabet=alist, ignore=iglist)
            rec.case(1, 1)
            case = dict(fn="one_hot_encode", alphabet=al, ignore=ig, s=s)
            if st != "ok":
                rec.violation("one_hot_encode:rejects_valid", case, observed=x)
                continue
            exp = numpy.zeros((A, L), dtype=numpy.int64)
            for i, ch in enumerate(s):
                if ch in al:
                    exp[al.index(ch), i] = 1
            if tuple(x.shape) != (A, L) or x.dtype != torch.int8 or not numpy.array_equal(x.numpy().astype(numpy.int64), exp):
                rec.violation("one_hot_encode:wrong_value", case, expected=exp, observed=x)
                continue
            sN = "".join(ch if ch in al else "N" for ch in s)
            has_ig = sN != s or "N" in sN and "N" not in al
            st, back = call(characters, x, alphabet=alist, allow_N=True)
            if A >= 2 or not has_ig:
                pass
            if st != "ok" or back != sN:
                # with a 1-letter alphabet an all-zero column still decodes to N through allow_N
                rec.violation("characters:wrong_value_allow_N", case, expected=sN, observed=back)
                continue
            # the same encoding in its batch-of-one form (1, alphabet, length) - also when the length or the alphabet size is 1
            st, back3 = call(characters, x[None], alphabet=alist, allow_N=True)
            if st != "ok" or back3 != sN:
                rec.violation("characters:wrong_value_batch_of_one", case, expected=sN, observed=back3)
                continue
            if all(ch in al for ch in s):
                st, back2 = call(characters, x, alphabet=alist)
                if st != "ok" or back2 != s:
                    rec.violation("characters:wrong_value", case, expected=s, observed=back2)
                    continue
            # inverse in the other direction: encode(decode(x)) == x
            if "N" not in al:
                st, x2 = call(one_hot_encode, sN, alphabet=alist, ignore=["N"])
                if st != "ok" or not torch.equal(x2, x):
                    rec.violation("one_hot_encode:not_inverse_of_characters", case, expected=x, observed=x2)
            rec.observe(s, int(x.sum()))
    # dtypes on one representative string per length
    for dt in DTYPES:
        s = (symbols * 3)[:Lmax]
        st, x = call(one_hot_encode, s, alphabet=alist, ignore=iglist, dtype=getattr(torch, dt))
        rec.case(1, 1)
        case = dict(fn="one_hot_encode", alphabet=al, ignore=ig, s=s, dtype=dt)
        if st != "ok" or x.dtype != getattr(torch, dt):
            rec.violation("one_hot_encode:dtype", case, observed=x if st != "ok" else str(x.dtype))
            continue
        exp = numpy.array([[1 if ch == a else 0 for ch in s] for a in al])
        if not numpy.array_equal(x.to(torch.int64).numpy(), exp):
            rec.violation("one_hot_encode:wrong_value", case, expected=exp, observed=x)
        st, back = call(characters, x.float() if dt in ("bool", "float16") else x, alphabet=alist, allow_N=True)
        sN = "".join(ch if ch in al else "N" for ch in s)
        if st != "ok" or back != sN:
            rec.violation("characters:wrong_value_allow_N", case, expected=sN, observed=back)
    # characters outside alphabet and ignore must be rejected, at every position
    outside = [c for c in "ACGTNacgtn-*.Bz0 ~" if c not in symbols]
    # every non-ASCII character of the Latin / Greek / Cyrillic blocks plus a few three- and four-byte ones (their UTF-8 bytes are
    # not characters of the alphabet either, whatever they alias to modulo 128 or 256)
    outside += [chr(k) for k in range(128, 0x500) if chr(k).isprintable()] + list("\u20ac\u2192\uff21\uff2e\U0001d400")
    base = (al * 4)[:3]
    for ch in outside:
        for pos in (range(4) if ord(ch) < 128 else (0, 3)):
            s = base[:pos] + ch + base[pos:]
            st, x = call(one_hot_encode, s, alphabet=alist, ignore=iglist)
            rec.case(1, 1)
            if st == "ok":
                rec.violation("one_hot_encode:accepts_outside_character", dict(fn="one_hot_encode", alphabet=al,
                              ignore=ig, s=s), expected="raise", observed=x)
    # ignore overlapping alphabet must be rejected
    st, x = call(one_hot_encode, base, alphabet=alist, ignore=[al[0]])
    rec.case(1, 1)
    if st == "ok":
        rec.violation("one_hot_encode:accepts_ignore_in_alphabet", dict(alphabet=al, ignore=al[0]))
    rec.sample(dict(kind="ohe", alphabet=al, ignore=ig, strings="all of length 1..%d over %r" % (Lmax, symbols)))


def run_rc(rec, tier):
    from tangermeme.utils import one_hot_encode, reverse_complement
    comp = {"A": "T", "C": "G", "G": "C", "T": "A", "N": "N"}
    Lmax = 5 if tier == "quick" else 7
    for L in range(1, Lmax + 1):
        for tup in itertools.product("ACGTN", repeat=L):
            s = "".join(tup)
            exp = "".join(comp[c] for c in reversed(s))
            rec.case(1, 1)
            case = dict(fn="reverse_complement", s=s)
            st, r = call(reverse_complement, s)
            if st != "ok" or r != exp:
                rec.violation("reverse_complement:string_wrong", case, expected=exp, observed=r)
                continue
            st, rr = call(reverse_complement, r)
            if st != "ok" or rr != s:
                rec.violation("reverse_complement:not_involution", case, expected=s, observed=rr)
            x = one_hot_encode(s)
            st, xr = call(reverse_complement, x)
            if st != "ok" or not torch.equal(xr, one_hot_encode(exp)):
                rec.violation("reverse_complement:tensor_disagrees_with_string", case, expected=one_hot_encode(exp),
                              observed=xr)
                continue
            st, xrr = call(reverse_complement, xr)
            if st != "ok" or not torch.equal(xrr, x):
                rec.violation("reverse_complement:tensor_not_involution", case)
            if "N" in s:
                st, r = call(reverse_complement, s, allow_N=False)
                if st == "ok":
                    rec.violation("reverse_complement:accepts_N_when_disallowed", case)
            rec.observe(s, exp)
    for bad in ("ACGU", "acgt", "AC-T"):
        st, r = call(reverse_complement, bad)
        rec.case(1, 1)
        if st == "ok":
            rec.violation("reverse_complement:accepts_unknown_character", dict(s=bad), observed=r)
    rec.sample(dict(kind="rc", strings="all over ACGTN of length 1..%d" % Lmax))


def run_chunk(rec, sh, tier):
    from tangermeme.utils import chunk, unchunk
    size = sh["size"]
    overlaps = list(range(size)) if size <= 10 else [0, 1, 2, size // 2, size - 2, size - 1]
    for overlap in overlaps:
        step = size - overlap
        lens = list(range(size, 3 * size + 3))
        if tier != "quick":
            lens += [size + 4 * step, size + 5 * step + (step // 2), size + 6 * step]
        lens = sorted(set(lens))
        # sequence sets: every single length; every ordered pair from a reduced list; triples from a smaller one
        red = sorted(set([size, size + 1, size + step - 1 if step > 1 else size, size + step, size + 2 * step,
                          size + 2 * step + 1, 3 * size + 2]))
        sets = [(l,) for l in lens] + [p for p in itertools.product(red, repeat=2)]
        if tier != "quick":
            sets += [p for p in itertools.product(red[:4] + red[-1:], repeat=3)]
        for lengths in sets:
            for C in ((1,) if tier == "quick" else (1, 2)):
                X = []
                # a list may mix storage types (e.g. an int8 one-hot next to a float PWM): the narrower one first, values exact in all of them
                mixed = len(lengths) >= 2 and (sum(lengths) + size + overlap) % 2 == 0
                dts = (torch.int16, torch.float32, torch.float64) if mixed else (torch.float64,) * 3
                for k, l in enumerate(lengths):
                    x = torch.arange(l, dtype=torch.float64)[None, :] + 100.0 * k + 10000.0 * torch.arange(C, dtype=torch.float64)[:, None]
                    if mixed and dts[k % 3].is_floating_point:
                        x = x + 0.25                     # not an integer: survives only in a floating type
                    X.append(x.to(dts[k % 3]))
                Xc = [x.clone() for x in X]
                case = dict(fn="chunk/unchunk", size=size, overlap=overlap, lengths=list(lengths), channels=C, dtypes=[str(x.dtype) for x in X])
                rec.case(1, 1)
                st, ch = call(chunk, X, size=size, overlap=overlap)
                if st != "ok":
                    rec.violation("chunk:raises", case, observed=ch)
                    continue
                nch = [(l - size) // step + 1 for l in lengths]
                # chunk content: chunk j of sequence k is X[k][:, j*step : j*step+size]
                expc = torch.cat([torch.stack([X[k][:, j * step:j * step + size] for j in range(nch[k])]).double() for k in range(len(X))])
                if tuple(ch.shape) != tuple(expc.shape) or not torch.equal(ch.double(), expc):
                    rec.violation("chunk:wrong_value", case, expected=list(expc.shape), observed=list(ch.shape))
                    continue
                # the lengths as a list, and as ONE tensor object used for two consecutive calls (it must come back unchanged)
                lt = torch.tensor(list(lengths), dtype=torch.int64)
                st_t, un_t = call(unchunk, ch, lengths=lt, overlap=overlap)
                st_t2, un_t2 = call(unchunk, ch, lengths=lt, overlap=overlap)
                st, un = call(unchunk, ch, lengths=list(lengths), overlap=overlap)
                if st != "ok":
                    rec.violation("unchunk:raises", case, observed=un)
                    continue
                if lt.tolist() != list(lengths):
                    rec.violation("unchunk:lengths_argument_modified", case, expected=list(lengths), observed=lt.tolist())
                elif st_t != "ok" or st_t2 != "ok" or len(un_t) != len(un) or len(un_t2) != len(un) or \
                        any(not torch.equal(a_, b_) for a_, b_ in zip(un_t, un)) or any(not torch.equal(a_, b_) for a_, b_ in zip(un_t2, un)):
                    rec.violation("unchunk:tensor_lengths_differ_from_list_lengths", case, observed=un_t if st_t != "ok" else (un_t2 if st_t2 != "ok" else None))
                if len(un) != len(X):
                    rec.violation("unchunk:wrong_count", case, expected=len(X), observed=len(un))
                    continue
                for k in range(len(X)):
                    covered = size + (nch[k] - 1) * step
                    e = X[k][:, :covered]
                    if tuple(un[k].shape) != tuple(e.shape) or not torch.equal(un[k].double(), e.double()):
                        kind = "single_chunk" if nch[k] == 1 else ("two_chunks" if nch[k] == 2 else "many_chunks")
                        rec.violation("unchunk:wrong_value:" + kind, dict(case, seq=k, n_chunks=nch[k]),
                                      expected=e[0, :12], observed=un[k][0, :12] if un[k].ndim == 2 else list(un[k].shape))
                        break
                if any(not torch.equal(a, b) for a, b in zip(X, Xc)):
                    rec.violation("chunk:input_modified", case)
                rec.outcome(tuple(nch))
                rec.observe(size, overlap, lengths)
    # invalid arguments must raise
    for bad in (dict(size=0), dict(size=-1), dict(size=2, overlap=-1), dict(size=2.5)):
        st, r = call(chunk, [torch.zeros(1, 8)], **bad)
        rec.case(1, 1)
        if st == "ok":
            rec.violation("chunk:accepts_invalid", dict(fn="chunk", args=bad))
    rec.sample(dict(kind="chunk", size=size, overlaps=overlaps, lengths="size..3*size+2 (+5..7 chunks)"))


def run_long(rec, tier, seed):
    """dtype-width boundaries: strings / tensors of every length around 127/128, 255/256, 32767/32768, 65535/65536 (a fixed pattern)."""
    from tangermeme.utils import characters, chunk, one_hot_encode, reverse_complement, unchunk
    lens = [126, 127, 128, 129, 254, 255, 256, 257, 1000, 32766, 32767, 32768, 32769, 65535, 65536, 65537, 70001, (1 << 20) + 3]
    for L in lens:
        i = numpy.arange(L)
        codes = (i * i + i // 5 + (i % 11) + seed) % 5          # 0..3 = ACGT, 4 = N
        s = "".join("ACGTN"[c] for c in codes)
        rec.case(1, 1)
        case = dict(fn="long", L=L, pattern="(i*i + i//5 + i%11 + seed) % 5")
        st, x = call(one_hot_encode, s)
        if st != "ok":
            rec.violation("one_hot_encode:raises_long", case, observed=x)
            continue
        exp = numpy.zeros((4, L), dtype=numpy.int8)
        m = codes < 4
        exp[codes[m], i[m]] = 1
        if tuple(x.shape) != (4, L) or not numpy.array_equal(x.numpy(), exp):
            rec.violation("one_hot_encode:wrong_value_long", case)
            continue
        st, back = call(characters, x, allow_N=True)
        if st != "ok" or back != s:
            rec.violation("characters:wrong_value_long", case)
            continue
        st, r = call(reverse_complement, s)
        st2, rx = call(reverse_complement, x)
        comp = {"A": "T", "C": "G", "G": "C", "T": "A", "N": "N"}
        if st != "ok" or st2 != "ok" or r != "".join(comp[c] for c in reversed(s)) or not torch.equal(rx, one_hot_encode(r)):
            rec.violation("reverse_complement:wrong_long", case)
            continue
        # chunk / unchunk around the same boundaries
        xv = (torch.arange(L, dtype=torch.float64)[None, :] + torch.tensor([[0.0], [0.5]], dtype=torch.float64))
        for size, overlap in ((128, 0), (128, 1), (256, 7), (40, 39), (100, 50)):
            if L < size:
                continue
            step = size - overlap
            if (L - size) // step + 1 > 5000:
                continue
            st, ch = call(chunk, [xv], size=size, overlap=overlap)
            st2, un = call(unchunk, ch, lengths=[L], overlap=overlap) if st == "ok" else ("raise", None)
            nch = (L - size) // step + 1
            covered = size + (nch - 1) * step
            rec.case(1, 1)
            if st != "ok" or st2 != "ok" or len(un) != 1 or tuple(un[0].shape) != (2, covered) or not torch.equal(un[0], xv[:, :covered]):
                rec.violation("unchunk:wrong_value_long", dict(case, size=size, overlap=overlap))
        rec.observe(L, int(exp.sum()))
    # beyond 2^24 positions (float32 no longer holds every integer): one sequence, 16762 chunks of 1024 overlapping by 23
    size, overlap = 1024, 23
    step = size - overlap
    for L in ((1 << 24) + step * 2 + 3 + size, step * 16761 + size):
        xv = torch.arange(L, dtype=torch.int32)[None, :]
        st, ch = call(chunk, [xv], size=size, overlap=overlap)
        st2, un = call(unchunk, ch, lengths=[L], overlap=overlap) if st == "ok" else ("raise", None)
        nch = (L - size) // step + 1
        covered = size + (nch - 1) * step
        rec.case(1, 1)
        if st != "ok" or st2 != "ok" or len(un) != 1 or tuple(un[0].shape) != (1, covered) or not torch.equal(un[0], xv[:, :covered]):
            rec.violation("unchunk:wrong_value_long", dict(fn="long", L=L, size=size, overlap=overlap, pattern="arange"),
                          expected=[1, covered], observed=list(un[0].shape) if st == "ok" and st2 == "ok" and len(un) else str(un)[:200])
        del xv, ch, un
    rec.sample(dict(kind="long", lengths=lens + ["2^24 + ... (chunk/unchunk only)"]))


def run_history(rec, tier, seed):
    """Call histories in one process: (alphabet, ignore, dtype) configurations alternated on the same strings - every call must follow
    its own configuration (nothing may be carried over from an earlier call)."""
    # reverse_complement on tensors with two complement maps that have the SAME keys in the same order but pair them differently,
    # in alternation: the tensor form must agree with the string form for the map of THIS call
    from tangermeme.utils import one_hot_encode as _ohe_, reverse_complement as _rc_, characters as _chars_
    maps = [{"A": "T", "C": "G", "G": "C", "T": "A"}, {"A": "C", "C": "A", "G": "T", "T": "G"}, {"A": "G", "C": "T", "G": "A", "T": "C"},
            {"A": "T", "C": "G", "G": "C", "T": "A"}]
    for s_ in ("ACGTTGCA", "AACCGT", "GATTACA"):
        for mi_, cm in enumerate(maps + maps[::-1]):
            st1, r_str = call(_rc_, s_, complement_map=cm, allow_N=False)
            st2, r_t = call(_rc_, _ohe_(s_), complement_map=cm, allow_N=False)
            rec.case(1, 1)
            expect = "".join(cm[c] for c in reversed(s_))
            got_t = _chars_(r_t) if st2 == "ok" else None
            if st1 != "ok" or st2 != "ok" or r_str != expect or got_t != expect:
                rec.violation("reverse_complement:map_of_an_earlier_call_applies", dict(fn="reverse_complement", s=s_, complement_map=cm, step=mi_),
                              expected=expect, observed=[r_str if st1 == "ok" else None, got_t])
    from tangermeme.utils import characters, one_hot_encode, reverse_complement
    cfgs = [("ACGT", "N"), ("ACGT", "NR"), ("ACGT", ""), ("TGCA", "N"), ("ACG", "N"), ("ACGTR", "N"), ("AGCT", "-"), ("ACGT", "N-")]
    strings = ["".join(t) for L in (1, 2, 3) for t in itertools.product("ACGTNR-", repeat=L)]
    if tier == "quick":
        strings = strings[::3]
    for (c1, c2) in itertools.permutations(range(len(cfgs)), 2):
        for s in strings[(c1 * 7 + c2) % 5::5]:
            for ci in (c1, c2, c1):
                al, ig = cfgs[ci]
                valid = all(ch in al or ch in ig for ch in s)
                st, x = call(one_hot_encode, s, alphabet=list(al), ignore=list(ig))
                rec.case(1, 1)
                case = dict(fn="one_hot_encode", s=s, alphabet=al, ignore=ig, history=[cfgs[c1], cfgs[c2], cfgs[c1]])
                if not valid:
                    if st == "ok":
                        rec.violation("one_hot_encode:accepts_outside_character:history", case, expected="raise", observed=x)
                    continue
                exp = numpy.array([[1 if ch == a else 0 for ch in s] for a in al], dtype=numpy.int64)
                if st != "ok" or not numpy.array_equal(x.numpy().astype(numpy.int64), exp):
                    rec.violation("one_hot_encode:wrong_value:history", case, expected=exp, observed=x)
                    continue
                sN = "".join(ch if ch in al else "N" for ch in s)
                st, back = call(characters, x, alphabet=list(al), allow_N=True)
                if st != "ok" or back != sN:
                    rec.violation("characters:wrong_value:history", case, expected=sN, observed=back)
        rec.observe(c1, c2)
    # reverse_complement with alternating complement maps
    maps = [{"A": "T", "C": "G", "G": "C", "T": "A"}, {"A": "U", "C": "G", "G": "C", "U": "A"}, {"T": "A", "G": "C", "C": "G", "A": "T"},
            {"K": "N", "L": "M", "M": "L", "N": "K"}, {"A": "T", "T": "A", "N": "n", "n": "N"},      # maps in which 'N' is an ordinary letter
            # first and last key paired with each other, inner keys NOT the mirror image of the key order
            {"A": "T", "S": "S", "W": "W", "T": "A"}, {"A": "E", "B": "B", "C": "D", "D": "C", "E": "A"}]
    for (m1, m2) in itertools.permutations(range(len(maps)), 2):
        for mi in (m1, m2, m1):
            cm = maps[mi]
            keys = list(cm)
            for tup in itertools.product(keys, repeat=3):
                s = "".join(tup)
                exp = "".join(cm[c] for c in reversed(s))
                st, r = call(reverse_complement, s, complement_map=cm)
                x = one_hot_encode(s, alphabet=keys, ignore=[])
                st2, xr = call(reverse_complement, x, complement_map=cm)
                rec.case(1, 1)
                if st != "ok" or r != exp or st2 != "ok" or not torch.equal(xr, one_hot_encode(exp, alphabet=keys, ignore=[])):
                    rec.violation("reverse_complement:wrong:history", dict(fn="reverse_complement", s=s, complement_map=cm), expected=exp, observed=r)
    rec.sample(dict(kind="history", configurations=cfgs, strings=len(strings), complement_maps=maps))


def run_shard(sh, tier, seed):
    rec = Recorder(PID, sh["name"])
    if sh["kind"] == "history":
        run_history(rec, tier, seed)
        return rec.result()
    if sh["kind"] == "long":
        run_long(rec, tier, seed)
        return rec.result()
    if sh["kind"] == "ohe":
        run_ohe(rec, sh, tier)
    elif sh["kind"] == "rc":
        run_rc(rec, tier)
    else:
        run_chunk(rec, sh, tier)
    return rec.result()


def replay(v):
    rec = Recorder(PID, "replay")
    c = v["case"]
    if v["sig"].endswith(":history"):
        run_history(rec, "thorough", 0)
    elif v["sig"].endswith("_long"):
        run_long(rec, "quick", 0)
    elif v["sig"].startswith(("chunk", "unchunk")):
        run_chunk(rec, dict(size=c.get("size", 4)), "thorough")
    elif v["sig"].startswith("reverse"):
        run_rc(rec, "quick")
    else:
        run_ohe(rec, dict(alphabet=c["alphabet"], ignore=c.get("ignore", "")), "quick")
    hit = [x for x in rec.violations if x["sig"] == v["sig"]]
    return (not hit), "replayed the family of %s: %d violations with signature %s%s" % (
        c, rec.viol_sigs.get(v["sig"], 0), v["sig"], ("\nfirst: %s" % hit[0]) if hit else "")
