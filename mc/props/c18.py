"""C18 - annotation and k-mer counting equal direct enumeration.

Exhaustive over all small annotation tables (ordered rows; row order matters to the implementation),
all max_distance / symmetric / shape / input-form settings, and all sequences up to length 6 for kmers.
Reference: brute-force counting in Python.
"""
import itertools

import numpy
import torch

from mc.common import all_codes, call, ohe
from mc.report import Recorder

PID = "C18"
LEVEL = "exploration"
RULE = ("cases = ordered annotation tables (rows over a small grid of example, annotation, start, length) x "
        "settings, and (alphabet, k, sequence) for kmers; enumerated completely, duplicate-free by construction; "
        "non-trivial = the table has >= 2 rows in one example (pair counting exercised) or the sequence has >= 1 k-mer")
ASSUMPTIONS = ["annotation spans have length >= 1, except in the spacing/zero_length shard (zero-length spans that do not share their start with another span of the same example)", "counts stay within the dtype range (int64 used for comparisons; default uint8 checked on the same small counts)",
               "kmers: the index of a k-mer is recovered from the n^k single-occurrence calls (must be a bijection) since it is not documented"]


def bound(tier):
    return ("count/pairwise: all tables <=3 rows over 3 examples x 3 annotations; spacing: all 2-row tables over (2 ex,3 ann,start 0..4,len 1..3) + 3-row tables on a reduced grid; zero-length spans: all 2-3 row tables over (2 ann,start 0..4,len 0 or 3); kmers L<=5"
            if tier == "quick" else
            "count/pairwise: all tables <=4 rows (5 rows on 2x2 grid); spacing: all tables <=3 rows over (2 ex,3 ann,start 0..4,len 1..3), 4-row tables on a reduced grid; kmers all sequences L<=6, A in 2..4, k<=4")


def shards(tier, seed):
    out = [dict(name="count_pairwise/rows%d" % k, kind="cp", rows=k, weight=9 ** k) for k in ((1, 2, 3) if tier == "quick" else (1, 2, 3, 4))]
    if tier != "quick":
        out.append(dict(name="count_pairwise/rows5small", kind="cp", rows=5, small=True, weight=4 ** 5))
    grid = [(e, a, s, l) for e in range(2) for a in range(3) for s in range(5) for l in (1, 2, 3)]
    out.append(dict(name="spacing/rows1-2", kind="sp", rows=[1, 2], grid="full", first=None, weight=8100))
    out.append(dict(name="spacing/zero_length", kind="sp", rows=[2, 3], grid="zero", first=None, weight=8400))
    if tier == "quick":
        out.append(dict(name="spacing/rows3red", kind="sp", rows=[3], grid="red", first=None, weight=8000))
    else:
        for f in range(len(grid)):
            out.append(dict(name="spacing/rows3/first%d" % f, kind="sp", rows=[3], grid="full", first=f, weight=8100))
        out.append(dict(name="spacing/rows4red", kind="sp", rows=[4], grid="red4", first=None, weight=20000))
    for A in (2, 3, 4):
        out.append(dict(name="kmers/A%d" % A, kind="km", A=A, weight=A ** 6))
    out.append(dict(name="forms", kind="forms", weight=10))
    out.append(dict(name="large", kind="large", weight=3000))
    return out


def _ref_counts(tab, ne, na):
    r = numpy.zeros((ne, na), dtype=numpy.int64)
    for e, a in tab:
        r[e, a] += 1
    return r


def _ref_pairs(tab, na, sym):
    r = numpy.zeros((na, na), dtype=numpy.int64)
    k = len(tab)
    for i in range(k):
        for j in range(i + 1, k):
            if tab[i][0] == tab[j][0]:
                a, b = tab[i][1], tab[j][1]
                r[a, b] += 1
                if sym and a != b:
                    r[b, a] += 1
    return r


def run_cp(rec, sh):
    from tangermeme.annotate import count_annotations, pairwise_annotations
    k = sh["rows"]
    rows = [(e, a) for e in range(2 if sh.get("small") else 3) for a in range(2 if sh.get("small") else 3)]
    for tab in itertools.product(rows, repeat=k):
        X = torch.tensor(tab, dtype=torch.int64)
        ne, na = max(r[0] for r in tab) + 1, max(r[1] for r in tab) + 1
        ref = _ref_counts(tab, ne, na)
        nontriv = int(any(tab[i][0] == tab[j][0] for i in range(k) for j in range(i + 1, k)))
        rec.case(1, nontriv)
        case = dict(fn="count_annotations", table=tab)
        for dt in (torch.int64, torch.uint8):
            st, y = call(count_annotations, X, dtype=dt)
            if st != "ok" or tuple(y.shape) != ref.shape or not numpy.array_equal(y.numpy().astype(numpy.int64), ref):
                rec.violation("count_annotations:wrong", dict(case, dtype=str(dt)), expected=ref, observed=y)
        st, y = call(count_annotations, X, dtype=torch.int64, dim=0)
        if st != "ok" or not numpy.array_equal(y.numpy(), ref.sum(0)):
            rec.violation("count_annotations:dim0_wrong", case, expected=ref.sum(0), observed=y)
        st, y = call(count_annotations, X, dtype=torch.int64, dim=1)
        if st != "ok" or not numpy.array_equal(y.numpy(), ref.sum(1)):
            rec.violation("count_annotations:dim1_wrong", case, expected=ref.sum(1), observed=y)
        # explicit shapes: larger, equal, smaller (must raise)
        for shp in ((ne + 1, na + 2), (ne, na)):
            refs = _ref_counts(tab, *shp)
            for dim, r in ((None, refs), (0, refs.sum(0)), (1, refs.sum(1))):
                st, y = call(count_annotations, X, dtype=torch.int64, shape=shp, dim=dim)
                if st != "ok" or tuple(y.shape) != r.shape or not numpy.array_equal(y.numpy(), r):
                    rec.violation("count_annotations:shape_wrong", dict(case, shape=shp, dim=dim), expected=r, observed=y)
        for shp in ((ne - 1, na), (ne, na - 1)):
            st, y = call(count_annotations, X, dtype=torch.int64, shape=shp)
            if st == "ok":
                rec.violation("count_annotations:accepts_small_shape", dict(case, shape=shp))
        for sym in (True, False):
            r = _ref_pairs(tab, na, sym)
            st, y = call(pairwise_annotations, X, symmetric=sym)
            if st != "ok" or tuple(y.shape) != r.shape or not numpy.array_equal(y.numpy().astype(numpy.int64), r):
                rec.violation("pairwise_annotations:wrong", dict(fn="pairwise_annotations", table=tab, symmetric=sym),
                              expected=r, observed=y)
            r2 = _ref_pairs(tab, na + 2, sym)
            st, y = call(pairwise_annotations, X, symmetric=sym, shape=na + 2)
            if st != "ok" or not numpy.array_equal(y.numpy().astype(numpy.int64), r2):
                rec.violation("pairwise_annotations:shape_wrong", dict(fn="pairwise_annotations", table=tab, symmetric=sym, shape=na + 2),
                              expected=r2, observed=y)
        if na > 1:
            st, y = call(pairwise_annotations, X, shape=na - 1)
            if st == "ok":
                rec.violation("pairwise_annotations:accepts_small_shape", dict(table=tab, shape=na - 1))
        rec.observe(tab)
    rec.sample(dict(kind="count/pairwise", rows=k, grid=rows, tables=len(rows) ** k))


def _ref_spacing(tab, na, md, sym):
    r = numpy.zeros((na, na, md), dtype=numpy.int64)
    k = len(tab)
    nontriv = 0
    for i in range(k):
        for j in range(i + 1, k):
            e0, a0, s0, t0 = tab[i]
            e1, a1, s1, t1 = tab[j]
            if e0 != e1:
                continue
            nontriv = 1
            if s0 < s1:
                left, right = tab[i], tab[j]
            elif s1 < s0:
                left, right = tab[j], tab[i]
            else:
                continue  # same start and length >= 1: overlapping, contributes nothing
            d = right[2] - left[3]
            if d < 0 or d >= md:
                continue
            r[left[1], right[1], d] += 1
            if sym and left[1] != right[1]:
                r[right[1], left[1], d] += 1
    return r, nontriv


def _classify_spacing(tab, md):
    """Which boundary the table touches (for violation signatures)."""
    kinds = set()
    k = len(tab)
    for i in range(k):
        for j in range(i + 1, k):
            if tab[i][0] != tab[j][0]:
                continue
            a, b = (tab[i], tab[j]) if tab[i][2] < tab[j][2] else (tab[j], tab[i])
            d = b[2] - a[3]
            if d < 0:
                kinds.add("overlap")
            elif d == md:
                kinds.add("gap_eq_max")
            elif d > md:
                kinds.add("gap_gt_max")
    return kinds


def run_sp(rec, sh, tier):
    from tangermeme.annotate import pairwise_annotations_spacing
    if sh["grid"] == "full":
        grid = [(e, a, s, s + l) for e in range(2) for a in range(3) for s in range(5) for l in (1, 2, 3)]
    elif sh["grid"] == "red":
        grid = [(0, a, s, s + l) for a in range(2) for s in range(5) for l in (1, 2)]
    elif sh["grid"] == "zero":
        # zero-length annotations (start == end): strictly inside another span (overlapping: nothing), abutting on the left (gap 0),
        # apart.  Tables in which a zero-length span shares its start with another span of the same example are left out: which of
        # the two is "left" is then not defined by the statement (and the pinned code answers by row order).
        grid = [(0, a, s, s + l) for a in range(2) for s in range(5) for l in (0, 3)]
    else:
        grid = [(0, a, s, s + l) for a in range(2) for s in (0, 1, 3, 4) for l in (1, 2)]
    for k in sh["rows"]:
        if sh["first"] is not None:
            it = ((grid[sh["first"]],) + rest for rest in itertools.product(grid, repeat=k - 1))
        else:
            it = itertools.product(grid, repeat=k)
        for tab in it:
            if sh["grid"] == "zero":
                if any(tab[i][2] == tab[j][2] and (tab[i][3] == tab[i][2] or tab[j][3] == tab[j][2]) for i in range(k) for j in range(i + 1, k)):
                    rec.count("zero_length_tables_left_out_equal_start")
                    continue
                rec.count("zero_length_span_strictly_inside_another",
                          sum(1 for i in range(k) for j in range(k) if i != j and tab[j][2] == tab[j][3] and tab[i][2] < tab[j][2] < tab[i][3]))
            X = torch.tensor(tab, dtype=torch.int64)
            na = max(r[1] for r in tab) + 1
            for md in (1, 2, 3):
                kinds = _classify_spacing(tab, md)
                for sym in (True, False):
                    ref, nontriv = _ref_spacing(tab, na, md, sym)
                    rec.case(1, nontriv)
                    st, y = call(pairwise_annotations_spacing, X, max_distance=md, dtype=torch.int64, symmetric=sym)
                    if st != "ok":
                        kind = "+".join(sorted(kinds)) or "plain"
                        rec.violation("pairwise_annotations_spacing:raises:" + kind,
                                      dict(fn="pairwise_annotations_spacing", table=tab, max_distance=md, symmetric=sym), observed=y)
                    elif tuple(y.shape) != ref.shape or not numpy.array_equal(y.numpy(), ref):
                        kind = "+".join(sorted(kinds)) or "plain"
                        rec.violation("pairwise_annotations_spacing:wrong:" + kind,
                                      dict(fn="pairwise_annotations_spacing", table=tab, max_distance=md, symmetric=sym),
                                      expected=numpy.argwhere(ref), observed=numpy.argwhere(y.numpy()))
            rec.observe(tab)
    rec.sample(dict(kind="spacing", rows=sh["rows"], grid=sh["grid"], example=list(grid[:3])))


def run_km(rec, sh, tier):
    from tangermeme.kmers import kmers
    A = sh["A"]
    Lmax = 5 if tier == "quick" else 6
    for k in (1, 2, 3, 4):
        words = all_codes(A, k)
        y = kmers(ohe(words, A), k)
        ok = tuple(y.shape) == (len(words), A ** k) and bool(((y == 0) | (y == 1)).all()) and bool((y.sum(1) == 1).all())
        pi = y.argmax(1).numpy() if ok else None
        rec.case(len(words), len(words))
        if not ok or len(set(pi.tolist())) != A ** k:
            rec.violation("kmers:index_not_bijection", dict(fn="kmers", A=A, k=k), observed=y.sum(1)[:8] if not ok else pi[:16])
            continue
        wid = {tuple(w): int(pi[i]) for i, w in enumerate(words.tolist())}
        for L in range(k, Lmax + 1):
            codes = all_codes(A, L)
            N = len(codes)
            ref = numpy.zeros((N, A ** k))
            sc = (numpy.arange(N)[:, None] * 7 + numpy.arange(L)[None, :] * 3) % 5 - 1.0   # integer-valued scores incl. negative, zero
            refs = numpy.zeros((N, A ** k))
            for i in range(L - k + 1):
                ids = numpy.array([wid[tuple(w)] for w in codes[:, i:i + k].tolist()])
                numpy.add.at(ref, (numpy.arange(N), ids), 1)
                numpy.add.at(refs, (numpy.arange(N), ids), sc[:, i:i + k].sum(1))
            X = ohe(codes, A)
            rec.case(N, N)
            st, y = call(kmers, X, k)
            if st != "ok" or tuple(y.shape) != ref.shape or not numpy.array_equal(y.numpy(), ref):
                bad = int(numpy.nonzero((y.numpy() != ref).any(1))[0][0]) if st == "ok" and tuple(y.shape) == ref.shape else -1
                rec.violation("kmers:wrong_counts", dict(fn="kmers", A=A, k=k, L=L, row=bad, seq=codes[bad].tolist() if bad >= 0 else None),
                              expected=ref[bad] if bad >= 0 else list(ref.shape), observed=y[bad] if bad >= 0 else y)
            st, y = call(kmers, X, k, scores=torch.from_numpy(sc))
            if st != "ok" or tuple(y.shape) != refs.shape or not numpy.allclose(y.numpy(), refs, atol=1e-5):
                rec.violation("kmers:wrong_scores", dict(fn="kmers", A=A, k=k, L=L), observed=y if st != "ok" else None)
            # batch independence: a single row alone gives the same row
            for i in (0, N // 2, N - 1):
                st, y1 = call(kmers, X[i:i + 1], k)
                if st != "ok" or not numpy.array_equal(y1.numpy()[0], ref[i]):
                    rec.violation("kmers:single_row_differs", dict(fn="kmers", A=A, k=k, L=L, row=i))
            rec.observe(A, k, L, float(ref.sum()))
    rec.sample(dict(kind="kmers", A=A, k="1..4", sequences="all of length k..%d" % Lmax))


def run_forms(rec):
    """tensor / tuple / DataFrame / numpy input forms describe the same table."""
    import pandas
    from tangermeme.annotate import count_annotations, pairwise_annotations, pairwise_annotations_spacing
    tabs = [[(0, 1, 0, 2), (0, 0, 3, 5), (1, 1, 1, 2), (0, 2, 6, 7), (1, 0, 4, 6)],
            [(1, 0, 2, 3), (1, 0, 5, 6)], [(0, 0, 0, 1)]]
    for tab in tabs:
        X4 = torch.tensor(tab, dtype=torch.int64)
        X2 = X4[:, :2]
        base_c = count_annotations(X2, dtype=torch.int64)
        base_p = pairwise_annotations(X2)
        base_s = pairwise_annotations_spacing(X4, max_distance=5, dtype=torch.int64)
        forms2 = {"tuple_tensor": (X2[:, 0], X2[:, 1]), "tuple_numpy": (X2[:, 0].numpy(), X2[:, 1].numpy()),
                  "tuple_series": (pandas.Series(X2[:, 0].numpy()), pandas.Series(X2[:, 1].numpy())),
                  "list_tensor": [X2[:, 0], X2[:, 1]]}
        for name, f in forms2.items():
            rec.case(1, 1)
            st, y = call(count_annotations, f, dtype=torch.int64)
            if st != "ok" or not torch.equal(y, base_c):
                rec.violation("count_annotations:form_differs", dict(form=name, table=tab), observed=y)
            st, y = call(pairwise_annotations, f)
            if st != "ok" or not torch.equal(y, base_p):
                rec.violation("pairwise_annotations:form_differs", dict(form=name, table=tab), observed=y)
        df = pandas.DataFrame(X4.numpy(), columns=["example_idx", "motif_idx", "start", "end"])
        rec.case(1, 1)
        st, y = call(pairwise_annotations_spacing, df, max_distance=5, dtype=torch.int64)
        if st != "ok" or not torch.equal(y, base_s):
            rec.violation("pairwise_annotations_spacing:form_differs", dict(form="DataFrame", table=tab), observed=y)
        # default dtype (uint8) holds the same small counts
        st, y = call(pairwise_annotations_spacing, X4, max_distance=5)
        if st != "ok" or not numpy.array_equal(y.numpy().astype(numpy.int64), base_s.numpy()):
            rec.violation("pairwise_annotations_spacing:default_dtype_differs", dict(table=tab), observed=y)
    rec.sample(dict(kind="forms", tables=tabs))


def run_large(rec, tier, seed):
    """Tables with hundreds of rows, many examples / annotation types, counts above 255 (int64 outputs), long sequences for kmers."""
    from tangermeme.annotate import count_annotations, pairwise_annotations, pairwise_annotations_spacing
    from tangermeme.kmers import kmers
    rs = numpy.random.RandomState(23 + seed)
    for (n, ne, na) in ((200, 8, 10), (700, 3, 2), (1000, 300, 4), (400, 1, 1)):
        tab = [(int(rs.randint(0, ne)), int(rs.randint(0, na))) for _ in range(n)]
        tab[0] = (ne - 1, na - 1)
        X = torch.tensor(tab, dtype=torch.int64)
        rec.case(1, 1)
        ref = _ref_counts(tab, ne, na)
        case = dict(fn="count_annotations", rows=n, examples=ne, annotations=na, generator="rs(23+seed)")
        for inp in (X, X.to(torch.int32), (X[:, 0].numpy(), X[:, 1].numpy())):
            st, y = call(count_annotations, inp, dtype=torch.int64)
            if st != "ok" or not numpy.array_equal(y.numpy(), ref):
                rec.violation("count_annotations:wrong:large", case, observed=y if st != "ok" else None)
            for dim, r in ((0, ref.sum(0)), (1, ref.sum(1))):
                st, y = call(count_annotations, inp, dtype=torch.int64, dim=dim)
                if st != "ok" or not numpy.array_equal(y.numpy(), r):
                    rec.violation("count_annotations:dim_wrong:large", dict(case, dim=dim))
        # narrow integer storage of the table (values fit; the matrix has more cells than the type can count) and explicit shapes
        if ne <= 100:
            for dt in (torch.uint8, torch.int8, torch.int16, torch.int32, torch.float32, torch.float64):
                for shp in (None, (ne, na), (ne + 3, na + 30), (ne + 120, 300)):
                    refp = ref if shp is None else _ref_counts(tab, shp[0], shp[1])
                    for inp in (X.to(dt), (X[:, 0].to(dt).numpy(), X[:, 1].to(dt).numpy())):
                        c2 = dict(case, table_dtype=str(dt), shape=shp, form="tensor" if isinstance(inp, torch.Tensor) else "tuple of arrays")
                        st, y = call(count_annotations, inp, dtype=torch.int64, shape=shp)
                        rec.case(1, 1)
                        if st != "ok" or not numpy.array_equal(y.numpy(), refp):
                            rec.violation("count_annotations:wrong:large", c2, observed=y if st != "ok" else None)
                        for dim, r in ((0, refp.sum(0)), (1, refp.sum(1))):
                            st, y = call(count_annotations, inp, dtype=torch.int64, dim=dim, shape=shp)
                            if st != "ok" or not numpy.array_equal(y.numpy(), r):
                                rec.violation("count_annotations:dim_wrong:large", dict(c2, dim=dim))
        if n <= 700:
            for sym in (True, False):
                st, y = call(pairwise_annotations, X, symmetric=sym)
                r = _ref_pairs(tab, na, sym)
                if st != "ok" or not numpy.array_equal(y.numpy().astype(numpy.int64), r):
                    rec.violation("pairwise_annotations:wrong:large", dict(case, symmetric=sym))
    # narrow output dtypes: every entry of the true matrix fits the requested dtype (same-annotation pair counts in its upper half)
    for reps in ((18, 3, 12), (23, 1, 16), (12, 12, 2), (182, 2, 5)):
        tab = [(0, 0)] * reps[0] + [(0, 1)] * reps[1] + [(1, 0)] * reps[2] + [(1, 2)]
        X = torch.tensor(tab, dtype=torch.int64)
        for sym in (True, False):
            r = _ref_pairs(tab, 3, sym)
            for dt, mx in ((torch.uint8, 255), (torch.int8, 127), (torch.int16, 32767), (torch.int32, 2 ** 31 - 1), (torch.int64, 2 ** 62),
                           (torch.float16, 2048), (torch.float32, 2 ** 24)):
                if r.max() > mx:
                    continue
                st, y = call(pairwise_annotations, X, dtype=dt, symmetric=sym)
                rec.case(1, 1)
                if st != "ok" or y.dtype != dt or not numpy.array_equal(y.double().numpy(), r.astype(numpy.float64)):
                    rec.violation("pairwise_annotations:wrong:narrow_dtype", dict(fn="pairwise_annotations", repeats=list(reps), symmetric=sym, dtype=str(dt)),
                                  expected=r.tolist(), observed=y.tolist() if st == "ok" else y)
    for (n, ne, na, md) in ((150, 4, 6, 30), (300, 2, 3, 100), (120, 1, 2, 300)):
        tab = []
        for _ in range(n):
            s_ = int(rs.randint(0, 400))
            tab.append((int(rs.randint(0, ne)), int(rs.randint(0, na)), s_, s_ + int(rs.randint(1, 12))))
        X = torch.tensor(tab, dtype=torch.int64)
        for sym in (True, False):
            ref, _ = _ref_spacing(tab, max(r[1] for r in tab) + 1, md, sym)
            st, y = call(pairwise_annotations_spacing, X, max_distance=md, dtype=torch.int64, symmetric=sym)
            rec.case(1, 1)
            if st != "ok" or not numpy.array_equal(y.numpy(), ref):
                rec.violation("pairwise_annotations_spacing:wrong:large", dict(fn="pairwise_annotations_spacing", rows=n, max_distance=md, symmetric=sym, generator="rs(23+seed)"),
                              observed=y if st != "ok" else None)
            # the same table as a tuple of per-column vectors whose integer dtypes differ (narrow example / annotation indexes, wide
            # coordinates beyond 255), as arrays, tensors and pandas Series - also Series whose index labels are permuted (rows pair by position)
            import pandas
            cols = [numpy.array([r[k] for r in tab]) for k in range(4)]
            perm = numpy.argsort([(r[2] * 7 + r[0]) % 101 for r in tab], kind="stable")
            # (the column tuple of this function is ordered example, start, end, annotation)
            forms = {
                "arrays uint8/int64/int64/int16": (cols[0].astype(numpy.uint8), cols[2].astype(numpy.int64), cols[3].astype(numpy.int64), cols[1].astype(numpy.int16)),
                "tensors uint8/int32/int64/uint8": (torch.from_numpy(cols[0].astype(numpy.uint8)), torch.from_numpy(cols[2].astype(numpy.int32)),
                                                    torch.from_numpy(cols[3].astype(numpy.int64)), torch.from_numpy(cols[1].astype(numpy.uint8))),
                "frame pieces with permuted index labels": (pandas.DataFrame({"e": cols[0]}, index=perm), pandas.DataFrame({"s": cols[2], "t": cols[3]}),
                                                            pandas.DataFrame({"a": cols[1]}, index=perm[::-1].copy())),
            }
            for fname, tup in forms.items():
                st, y = call(pairwise_annotations_spacing, tup, max_distance=md, dtype=torch.int64, symmetric=sym)
                rec.case(1, 1)
                if st != "ok" or not numpy.array_equal(y.numpy(), ref):
                    rec.violation("pairwise_annotations_spacing:wrong:column_tuple", dict(fn="pairwise_annotations_spacing", rows=n, max_distance=md, symmetric=sym, form=fname,
                                  generator="rs(23+seed)"), observed=y if st != "ok" else None)
            tab2 = [(r[0], r[1]) for r in tab]
            r2 = _ref_pairs(tab2, max(r[1] for r in tab) + 1, sym)
            rc2 = _ref_counts(tab2, max(r[0] for r in tab) + 1, max(r[1] for r in tab) + 1)
            for fname, tup in (("series with permuted index labels", (pandas.Series(cols[0], index=perm), pandas.Series(cols[1]))),
                               ("arrays uint8/int64", (cols[0].astype(numpy.uint8), cols[1].astype(numpy.int64)))):
                st, y = call(pairwise_annotations, tup, symmetric=sym)
                st2, y2 = call(count_annotations, tup, dtype=torch.int64)
                rec.case(2, 2)
                if st != "ok" or not numpy.array_equal(y.numpy().astype(numpy.int64), r2):
                    rec.violation("pairwise_annotations:wrong:column_tuple", dict(fn="pairwise_annotations", rows=n, symmetric=sym, form=fname, generator="rs(23+seed)"),
                                  observed=y if st != "ok" else None)
                if st2 != "ok" or not numpy.array_equal(y2.numpy(), rc2):
                    rec.violation("count_annotations:wrong:column_tuple", dict(fn="count_annotations", rows=n, form=fname, generator="rs(23+seed)"), observed=y2 if st2 != "ok" else None)
    # kmers on long sequences (counts above 255 and above 65535 for k=1), several rows
    for (A_, k, L) in ((4, 1, 70000), (4, 3, 5000), (2, 4, 3000), (3, 2, 300), (4, 2, (1 << 20) + 9)):
        codes = rs.randint(0, A_, (3, L))
        Xk = ohe(codes, A_)
        words = all_codes(A_, k)
        pi = kmers(ohe(words, A_), k).argmax(1).numpy()
        wid = {tuple(w): int(pi[i]) for i, w in enumerate(words.tolist())}
        ref = numpy.zeros((3, A_ ** k))
        for i in range(L - k + 1):
            ids = numpy.array([wid[tuple(w)] for w in codes[:, i:i + k].tolist()])
            numpy.add.at(ref, (numpy.arange(3), ids), 1)
        st, y = call(kmers, Xk, k)
        rec.case(3, 3)
        if st != "ok" or not numpy.array_equal(y.numpy(), ref):
            rec.violation("kmers:wrong_counts:large", dict(fn="kmers", A=A_, k=k, L=L), observed=y if st != "ok" else None)
    # scored k-mers with a huge dynamic range: windows that do not contain the two giant scores are summed exactly
    for (A_, k, L) in ((4, 3, 60), (4, 2, 40)):
        codes = rs.randint(0, A_, (1, L))
        sc = numpy.ones(L)
        sc[5], sc[30] = 1e20, -1e20
        words = all_codes(A_, k)
        pi = kmers(ohe(words, A_), k).argmax(1).numpy()
        wid = {tuple(w): int(pi[i]) for i, w in enumerate(words.tolist())}
        clean, dirty = {}, set()
        for i in range(L - k + 1):
            j = wid[tuple(codes[0, i:i + k].tolist())]
            if i <= 5 < i + k or i <= 30 < i + k:
                dirty.add(j)
            else:
                clean[j] = clean.get(j, 0.0) + float(sc[i:i + k].sum())
        st, y = call(kmers, ohe(codes, A_), k, scores=torch.from_numpy(sc)[None])
        rec.case(1, 1)
        bad = st != "ok" or any(j not in dirty and abs(float(y[0, j]) - v) > 1e-4 for j, v in clean.items())
        if bad:
            rec.violation("kmers:wrong_scores:dynamic_range", dict(fn="kmers", A=A_, k=k, L=L, scores="ones with 1e20 at 5 and -1e20 at 30"), observed=y if st != "ok" else None)
    # k-mer spaces beyond 2^24 columns (indexes no longer exact in single precision): the j-th k-mer is the one whose characters,
    # first character least significant, spell j in base len(alphabet) - the order the small-k enumeration establishes
    for (A_, k, L) in ((4, 12, 70), (4, 13, 70), (5, 11, 50)):
        codes = rs.randint(0, A_, (1, L))
        codes[0, -k:] = A_ - 1                                   # the largest index occurs
        refd = {}
        for i in range(L - k + 1):
            j = sum(int(codes[0, i + t]) * A_ ** t for t in range(k))
            refd[j] = refd.get(j, 0) + 1
        st, y = call(kmers, ohe(codes, A_), k)
        rec.case(1, 1)
        ok = st == "ok" and tuple(y.shape) == (1, A_ ** k)
        if ok:
            nz = y[0].nonzero()[:, 0].tolist()
            ok = sorted(nz) == sorted(refd) and all(float(y[0, j]) == refd[j] for j in nz)
        if not ok:
            rec.violation("kmers:wrong_counts:large", dict(fn="kmers", A=A_, k=k, L=L, columns=A_ ** k), observed=y if st != "ok" else None)
        del y
    rec.sample(dict(kind="large", big_kmer_spaces=["4^12", "4^13", "5^11"], table_dtypes="uint8..float64 x explicit shapes", tables=["200x8x10", "700x3x2", "1000x300x4", "400x1x1"], kmers=["k1 L70000", "k3 L5000", "k4 L3000"]))


def run_shard(sh, tier, seed):
    rec = Recorder(PID, sh["name"])
    if sh["kind"] == "large":
        run_large(rec, tier, seed)
        return rec.result()
    if sh["kind"] == "cp":
        run_cp(rec, sh)
    elif sh["kind"] == "sp":
        run_sp(rec, sh, tier)
    elif sh["kind"] == "km":
        run_km(rec, sh, tier)
    else:
        run_forms(rec)
    return rec.result()


def replay(v):
    from tangermeme.annotate import pairwise_annotations_spacing
    c = v["case"]
    rec = Recorder(PID, "replay")
    if c.get("fn") == "pairwise_annotations_spacing":
        tab = [tuple(r) for r in c["table"]]
        na = max(r[1] for r in tab) + 1
        ref, _ = _ref_spacing(tab, na, c["max_distance"], c["symmetric"])
        st, y = call(pairwise_annotations_spacing, torch.tensor(tab), max_distance=c["max_distance"], dtype=torch.int64,
                     symmetric=c["symmetric"])
        ok = st == "ok" and numpy.array_equal(y.numpy(), ref)
        return ok, "table=%s max_distance=%s symmetric=%s\nexpected nonzero %s\nobserved %s" % (
            tab, c["max_distance"], c["symmetric"], numpy.argwhere(ref).tolist(), y if st != "ok" else numpy.argwhere(y.numpy()).tolist())
    if "table" in c:
        run_cp(rec, dict(rows=len(c["table"])))
    elif c.get("fn") == "kmers":
        run_km(rec, dict(A=c["A"]), "thorough")
    else:
        run_forms(rec)
    hit = [x for x in rec.violations if x["sig"] == v["sig"]]
    return (not hit), "replayed family: %d violations with signature %s" % (rec.viol_sigs.get(v["sig"], 0), v["sig"])
