"""C17 - GC-matched background loci are valid, disjoint from the input and GC-balanced.

Exhaustive over small synthetic genomes built from a palette of tiles (GC 0/20/50/80/100 %, N-rich at / above
max_n_perc, quiet / loud signal), every placement set of 1-3 input loci (on tile boundaries, inside tiles, straddling
two tiles, off the chromosome end), bin widths, N thresholds, with/without bigwig (out_window ==, -1, -4 of in_window),
seeds.  Oracle: invariants recomputed from the generated genome / signal.  Schedules: the per-chromosome fan-out
(joblib.Parallel) is replaced, through re-bound globals of the REAL function, by a scheduler shim that explores every
completion order of the per-chromosome jobs (and honours return_as=list/generator/generator_unordered semantics);
results must be identical for every schedule; real joblib runs with n_jobs 1..4 (threading, and loky on a subset)
validate the shim.
"""
import itertools
import os
import shutil

import numpy

from mc import env
from mc.common import call
from mc.report import Recorder
from mc.shims import rebind

PID = "C17"
LEVEL = "exploration"
DETERMINISM_IS_PROPERTY = True
REDUCED = {'quick': 'each (genome, locus set) meets one of the 6 configurations (cycled), 5-tile genomes only with same/adjacent-tile locus pairs', 'thorough': 'each (genome, locus set) meets two of the 6 configurations (cycled)'}
RULE = ("cases = (genome tile sequence, input locus set, in/out window, gc_bin_width, max_n_perc, bigwig on/off, signal_beta, seed, "
        "n_jobs / completion order) enumerated completely over the palette; non-trivial = the call returned at least one locus "
        "(every returned row is checked) or inputs went unmatched; counted separately: cases where a bin had to spill")
ASSUMPTIONS = ["usable input = valid (window inside the chromosome) with N fraction < max_n_perc for lower bounds and <= max_n_perc for upper bounds",
               "tiles the implementation masks in addition to the touched ones (end // in_window + 1) are not required to be returned",
               "integer-valued signals (bigWig float32 exact)", "in_window = 10 (the code is size-agnostic)"]

W = 10
TILES = {
    "g0": "ATATATATAT", "g2": "ATATGTATCT", "g5": "ACGTACGTAC", "g8": "GCGCGCGCAT", "g10": "GCGCGCGCGC",
    "n1": "ANATATATAT", "n2": "NNGCGCATAT", "n5": "NNNNNGCGCG", "n6": "NNNNNNGCGC",
    "q5": "ACGTTGCAAC",   # 50 % GC, different sequence (so that tiles are distinguishable)
}
SIG = {"g0": 0, "g2": 1, "g5": 0, "g8": 0, "g10": 3, "n1": 0, "n2": 0, "n5": 0, "n6": 0, "q5": 6}


def bound(tier):
    return ("chrom filter: all tile sequences of length <=3 over 10 tile types; match: all 4-tile genomes over {g0,g5,g10,n2} + fixed 2nd chromosome x all 1-2 locus placement sets, all 5-tile genomes x singles and same/adjacent-tile pairs; schedules: all completion orders of 3 chromosomes"
            if tier == "quick" else
            "chrom filter: all tile sequences of length <=4 over 10 tile types; match: all 5-tile genomes over {g0,g5,g10,n2} and 4-tile genomes over 6 types x all 1-2 (3 on a subset) locus placement sets x bin widths x N thresholds x bigwig variants; schedules: all completion orders of 3 chromosomes, real n_jobs 1..4 threading + loky subset")


def shards(tier, seed):
    out = []
    for k in ((1, 2, 3) if tier == "quick" else (1, 2, 3, 4)):
        nparts = 1 if k < 4 else 8
        for p in range(nparts):
            out.append(dict(name="chrom/k%d/%d" % (k, p), kind="chrom", k=k, part=p, parts=nparts, weight=10 ** k // nparts))
    pal = ["g0", "g5", "g10", "n2"]
    K = 4 if tier == "quick" else 5
    for first in pal:
        for second in pal:
            out.append(dict(name="match/%s-%s" % (first, second), kind="match", pal=pal, K=K, first=[first, second], weight=4 ** K * 20))
    if tier == "quick":
        # 5-tile genomes with a reduced locus-set family (singles, two loci in the same tile, loci in adjacent tiles):
        # the smallest genomes in which a bin can spill to both an upper and a lower neighbour bin
        for first in pal:
            for second in pal:
                out.append(dict(name="match5/%s-%s" % (first, second), kind="match", pal=pal, K=5, first=[first, second], reduced=True,
                                weight=4 ** 5 * 20))
    if tier != "quick":
        pal6 = ["g0", "g2", "g5", "g8", "n1", "q5"]
        for first in pal6:
            out.append(dict(name="match6/%s" % first, kind="match", pal=pal6, K=4, first=[first], weight=6 ** 3 * 100))
    # larger tiles (in_window = 50 and 500: every 10-base tile repeated 5 / 50 times; same GC and N fractions)
    for scale, firsts in ((5, (["g5", "g0"], ["g10", "n2"])), (50, (["g0", "g10"],))):
        for first in firsts:
            out.append(dict(name="match_w%d/%s" % (10 * scale, "-".join(first)), kind="match", pal=pal, K=4, first=first, scale=scale, reduced=True,
                            weight=4 ** 4 * 30))
    out.append(dict(name="chrom_exact", kind="chrom_exact", weight=1500))
    out.append(dict(name="megabase", kind="mega", weight=3000))
    out.append(dict(name="sched", kind="sched", weight=2000))
    return out


# --------------------------------------------------------------------------------------------- fixtures
def write_genome(d, chroms, tag, with_bw=True):
    """chroms: list of (name, [tile names], tail string).  Returns (fasta, bigwig, seqs dict, sig dict)."""
    import pyBigWig
    fa = os.path.join(d, "g%s.fa" % tag)
    seqs, sigs = {}, {}
    with open(fa, "w") as fh:
        for name, tiles, tail in chroms:
            s = "".join(TILES[t] for t in tiles) + tail
            # lower-case part of the sequence: case must not matter
            s = s[:3].lower() + s[3:]
            seqs[name] = s.upper()
            sig = []
            for t in tiles:
                # not constant inside a tile: the first and the last base of a covered tile carry extra counts, so a summed window
                # that is off by one base has a different total
                v = [SIG[t]] * W
                if SIG[t] > 0:
                    v[0] += 7
                    v[-1] += 11
                sig.extend(v)
            sig.extend([0] * len(tail))
            sigs[name] = numpy.array(sig, dtype=numpy.float64)
            fh.write(">%s\n%s\n" % (name, s))
    bw = None
    if with_bw:
        bw = os.path.join(d, "g%s.bw" % tag)
        b = pyBigWig.open(bw, "w")
        b.addHeader([(n, len(seqs[n])) for n, _, _ in chroms])
        for n, _, _ in chroms:
            L = len(seqs[n])
            b.addEntries([n] * L, list(range(L)), ends=list(range(1, L + 1)), values=[float(v) for v in sigs[n]])
        b.close()
    return fa, bw, seqs, sigs


def gc_bin(frac, width):
    return int(((numpy.float64(frac) + width / 2.) // width))


# --------------------------------------------------------------------------------------------- per-chromosome filter
def run_chrom(rec, sh, tier, seed):
    from tangermeme.match import _extract_and_filter_chrom
    d = env.scratch_dir("c17c")
    try:
        names = list(TILES)
        combos = list(itertools.product(names, repeat=sh["k"]))[sh["part"]::sh["parts"]]
        for ci, tiles in enumerate(combos):
            tail = ("", "ACG", "GCGCGCGCG")[ci % 3]
            fa, bw, seqs, sigs = write_genome(d, [("c", list(tiles), tail)], "x")
            s = seqs["c"]
            for width in (0.1, 0.25):
                for mnp in (0.0, 0.1, 0.5):
                    for (use_bw, ow, thr) in ((False, W, None), (True, W, 0), (True, W - 1, 0), (True, W - 4, 6), (True, W - 1, 30), (True, W, 17), (True, W - 1, 17),
                                            (True, W - 3, 10), (True, W - 2, 12), (True, W - 1, 64)):
                        exp = {}
                        for t in range(len(s) // W):
                            tile = s[t * W:(t + 1) * W]
                            if tile.count("N") / W > mnp:
                                continue
                            if use_bw:
                                lf = (W - ow) // 2
                                sg = sigs["c"][t * W + lf:t * W + lf + ow].sum()
                                if sg > thr:
                                    continue
                            b = gc_bin((tile.count("G") + tile.count("C")) / W, width)
                            exp.setdefault(b, []).append(t)
                        case = dict(fn="_extract_and_filter_chrom", tiles=list(tiles), tail=tail, gc_bin_width=width, max_n_perc=mnp,
                                    bigwig=use_bw, out_window=ow, signal_threshold=thr)
                        st, got = call(_extract_and_filter_chrom, fa, "c", W, ow, max_n_perc=mnp, gc_bin_width=width,
                                       bigwig=bw if use_bw else None, signal_threshold=thr)
                        rec.case(1, int(len(exp) > 0))
                        if st != "ok":
                            rec.violation("_extract_and_filter_chrom:raises", case, observed=got)
                            continue
                        got = {int(k): [int(v) for v in vs] for k, vs in got.items()}
                        if got != exp:
                            kind = "out_window_eq_in_window" if (use_bw and ow == W) else ("signal" if use_bw else "plain")
                            rec.violation("_extract_and_filter_chrom:wrong_tiles:" + kind, case, expected=exp, observed=got)
                            continue
                        rec.observe(tiles, width, mnp, use_bw, ow, sorted(exp.items()))
            os.remove(fa)
            if os.path.exists(fa + ".fai"):
                os.remove(fa + ".fai")
        rec.sample(dict(kind="chrom", k=sh["k"], tile_sequences=len(combos), palette=list(TILES), widths=[0.1, 0.25], max_n_perc=[0, 0.1, 0.5],
                        bigwig="off / out=in / in-1 / in-4 with thresholds"))
    finally:
        shutil.rmtree(d, ignore_errors=True)


def run_chrom_exact(rec, tier, seed):
    """Windows of 50 / 100 / 200 bases whose N count makes the N fraction EQUAL to max_n_perc (a fraction k/W that is not a round number:
    0.29, 0.58, 0.145, ...): "not above" includes equality.  And a deep-coverage chromosome whose cumulative signal passes 2^24 while
    the per-tile sums sit one count above / exactly at the threshold."""
    import pyBigWig
    from tangermeme.match import _extract_and_filter_chrom
    d = env.scratch_dir("c17x")
    try:
        for Wn in (50, 100, 200):
            ks = sorted(set([0, 1, Wn // 4, 29 * Wn // 100, 29 * Wn // 100 + 1, 57 * Wn // 100, 58 * Wn // 100, Wn // 2]))
            tiles = []
            for k in ks:
                body = ("ACGT" * Wn)[:Wn - k]
                tiles.append("N" * k + body)
            s = "".join(tiles)
            fa = os.path.join(d, "x%d.fa" % Wn)
            with open(fa, "w") as fh:
                fh.write(">c\n%s\n" % s)
            for k0 in ks:
                for p_ in (k0 / Wn, numpy.nextafter(k0 / Wn, 1.0), numpy.nextafter(k0 / Wn, 0.0) if k0 else 0.0):
                    exp = {}
                    for t, k in enumerate(ks):
                        if k / Wn <= p_:
                            tile = tiles[t]
                            exp.setdefault(gc_bin((tile.count("G") + tile.count("C")) / Wn, 0.25), []).append(t)
                    case = dict(fn="_extract_and_filter_chrom", in_window=Wn, n_counts=ks, max_n_perc=float(p_))
                    st, got = call(_extract_and_filter_chrom, fa, "c", Wn, Wn, max_n_perc=float(p_), gc_bin_width=0.25, bigwig=None, signal_threshold=None)
                    rec.case(1, 1)
                    if st != "ok":
                        rec.violation("_extract_and_filter_chrom:raises", case, observed=got)
                        continue
                    got = {int(k): [int(v) for v in vs] for k, vs in got.items()}
                    if got != exp:
                        rec.violation("_extract_and_filter_chrom:wrong_tiles:n_fraction_equal_to_threshold", case, expected=exp, observed=got)
        # deep coverage: 400 tiles of 100 bases, 1000 counts per base; most tiles carry one extra count
        Wn, nt = 100, 400
        sig = numpy.full(Wn * nt, 1000.0)
        exact = (150, 390, 7)
        for t in range(nt):
            if t not in exact:
                sig[t * Wn + (t * 7) % Wn] += 1.0
        fa = os.path.join(d, "deep.fa")
        with open(fa, "w") as fh:
            fh.write(">c\n%s\n" % ("ACGT" * (Wn * nt // 4)))
        bwp = os.path.join(d, "deep.bw")
        b = pyBigWig.open(bwp, "w")
        b.addHeader([("c", Wn * nt)])
        b.addEntries(["c"] * (Wn * nt), list(range(Wn * nt)), ends=list(range(1, Wn * nt + 1)), values=[float(v) for v in sig])
        b.close()
        for thr in (100000.0, 100000.5, 99999.0, 100001.0):
            exp_t = [t for t in range(nt) if sig[t * Wn:(t + 1) * Wn].sum() <= thr]
            case = dict(fn="_extract_and_filter_chrom", in_window=Wn, tiles=nt, signal="1000 per base (+1 in most tiles)", signal_threshold=thr)
            st, got = call(_extract_and_filter_chrom, fa, "c", Wn, Wn, max_n_perc=0.1, gc_bin_width=0.25, bigwig=bwp, signal_threshold=thr)
            rec.case(1, 1)
            if st != "ok":
                rec.violation("_extract_and_filter_chrom:raises", case, observed=got)
                continue
            got_t = sorted(int(v) for vs in got.values() for v in vs)
            if got_t != exp_t:
                rec.violation("_extract_and_filter_chrom:wrong_tiles:deep_coverage", case, expected=exp_t[:10], observed=got_t[:10])
        rec.sample(dict(kind="chrom_exact", windows=[50, 100, 200], thresholds="k/W and its float neighbours", deep_coverage="400 tiles x 100 bases x 1000 counts"))
    finally:
        shutil.rmtree(d, ignore_errors=True)


# --------------------------------------------------------------------------------------------- whole function
def placements(chrom, ntiles, tail_len):
    L = ntiles * W + tail_len
    out = []
    for t in range(ntiles):
        out.append((chrom, t * W, (t + 1) * W))              # exactly a tile
        out.append((chrom, t * W + W // 3, t * W + (2 * W) // 3))            # inside a tile
        if t + 1 < ntiles:
            out.append((chrom, t * W + W - 3, t * W + W + 3))                # straddling two tiles
    out.append((chrom, L - 4, L + 5))                        # partly off the chromosome end
    out.append((chrom, 0, 3))                                # window would start before 0
    out.append((chrom, -3, 4))                               # hangs over the chromosome start (summit minus flank): still touches tile 0
    out.append((chrom, -W - 2, 3))                           # starts more than a tile before the chromosome
    return out


def check_result(rec, case, df, seqs, sigs, loci, chroms_bg, in_w, out_w, width, mnp, use_bw, beta):
    """Invariants on the returned DataFrame. Returns number of rows or None if structurally broken."""
    rows = [(str(r[0]), int(r[1]), int(r[2])) for r in df.itertuples(index=False)]
    if len(set(rows)) != len(rows):
        rec.violation("match:duplicate_rows", case, observed=rows)
        return None
    nb = int(1. / width) + 1
    # inputs
    valid = []
    mw = max(in_w, out_w)
    for (c, s, e) in loci:
        mid = s + (e - s) // 2
        a, b = mid - mw // 2, mid + (mw + 1) // 2
        if c in seqs and a >= 0 and b <= len(seqs[c]):
            valid.append((c, mid))
    usable_strict = [0] * nb
    n_usable_lenient = 0
    for (c, mid) in valid:
        a, b = mid - in_w // 2, mid + (in_w + 1) // 2
        win = seqs[c][a:b]
        nfrac = win.count("N") / len(win)
        if nfrac <= mnp:
            n_usable_lenient += 1
        if nfrac < mnp:
            usable_strict[gc_bin((win.count("G") + win.count("C")) / len(win), width)] += 1
    thr = None
    if use_bw:
        counts = [sigs[c][mid - out_w // 2: mid + (out_w + 1) // 2].sum() for (c, mid) in valid]
        if not counts:
            return len(rows)
        thr = float(numpy.nanquantile(numpy.array(counts, dtype=float), 0.01)) * beta
    # background tiles
    touched, masked = set(), set()
    for (c, s, e) in loci:
        for t in range(s // in_w, (e - 1) // in_w + 1):
            touched.add((c, t))
        for t in range(s // in_w, e // in_w + 1):
            masked.add((c, t))
    elig_upper, elig_lower = [0] * nb, [0] * nb
    tile_info = {}
    for c in chroms_bg:
        s = seqs[c]
        for t in range(len(s) // in_w):
            tile = s[t * in_w:(t + 1) * in_w]
            ok = tile.count("N") / in_w <= mnp
            sg = None
            if use_bw:
                lf = (in_w - out_w) // 2
                sg = float(sigs[c][t * in_w + lf:t * in_w + lf + out_w].sum())
                ok = ok and sg <= thr
            b = gc_bin((tile.count("G") + tile.count("C")) / in_w, width)
            tile_info[(c, t)] = (b, tile.count("N") / in_w, sg)
            if ok and (c, t) not in touched:
                elig_upper[b] += 1
            if ok and (c, t) not in masked:
                elig_lower[b] += 1
    chosen = [0] * nb
    for (c, s, e) in rows:
        c2 = dict(case, row=[c, s, e])
        if c not in chroms_bg or s % in_w != 0 or e != s + in_w or s < 0 or e > len(seqs[c]):
            rec.violation("match:row_not_an_aligned_tile_inside_chromosome", c2)
            return None
        t = s // in_w
        b, nfrac, sg = tile_info[(c, t)]
        if (c, t) in touched:
            rec.violation("match:row_in_tile_touched_by_input", c2)
            return None
        if nfrac > mnp:
            rec.violation("match:row_exceeds_max_n_perc", c2, expected=mnp, observed=nfrac)
            return None
        if use_bw and sg > thr:
            kind = "out_window_eq_in_window" if out_w == in_w else "general"
            rec.violation("match:row_signal_above_threshold:" + kind, c2, expected=thr, observed=sg)
            return None
        chosen[b] += 1
    n_strict = sum(usable_strict)
    if len(rows) > n_usable_lenient:
        rec.violation("match:more_rows_than_usable_inputs", case, expected=n_usable_lenient, observed=len(rows))
        return None
    for b in range(nb):
        if chosen[b] > elig_upper[b]:
            rec.violation("match:bin_exceeds_eligible", dict(case, bin=b), expected=elig_upper[b], observed=chosen[b])
            return None
        if chosen[b] < min(usable_strict[b], elig_lower[b]):
            rec.violation("match:bin_below_min_input_eligible", dict(case, bin=b), expected=min(usable_strict[b], elig_lower[b]), observed=chosen[b])
            return None
    if len(rows) < n_strict and len(rows) < sum(elig_lower):
        only0 = all(chosen[b] >= elig_lower[b] for b in range(1, nb))
        rec.violation("match:inputs_unmatched_although_background_left:" + ("only_bin0_left" if only0 else "general"), case,
                      expected=min(n_strict, sum(elig_lower)), observed=len(rows))
        return None
    if any(usable_strict[b] > elig_lower[b] for b in range(nb)):
        rec.count("cases_with_spill")
    if rows != sorted(rows):
        rec.violation("match:not_sorted", case)
    return len(rows)


def run_match(rec, sh, tier, seed):
    from tangermeme.match import extract_matching_loci
    import pandas
    d = env.scratch_dir("c17m")
    try:
        pal, K = sh["pal"], sh["K"]
        rest = K - len(sh["first"])
        n_ret = 0
        for gi, tail_tiles in enumerate(itertools.product(pal, repeat=rest)):
            tiles = list(sh["first"]) + list(tail_tiles)
            tail = ("", "ACGTA")[gi % 2]
            # "cAa": a scaffold shorter than one window that sorts between the two chromosomes (it holds no tile)
            chroms = [("cA", tiles, tail), ("cAa", [], "ACG"), ("cB", ["g5", "g0", "g10", "q5"], "AC")]
            fa, bw, seqs, sigs = write_genome(d, chroms, "m")
            pl = placements("cA", K, len(tail))
            lsets = [(p,) for p in pl] + list(itertools.combinations(pl, 2))
            if sh.get("reduced"):
                lsets = [(p,) for p in pl] + [(a, b) for a, b in itertools.combinations(pl, 2) if abs(a[1] // W - b[1] // W) <= 1 and a[1] // W >= 1]
            if tier != "quick" and gi % 7 == 0:
                lsets += list(itertools.combinations(pl[::2], 3))
            lsets.append((("cB", 3, 8), pl[0]))
            lsets.append((("cAa", 0, 3), ("cB", 3, 8), pl[0]))
            lsets.append((pl[1], ("cAa", 1, 2), ("cB", 13, 18)))
            for li, lset in enumerate(lsets):
                # one configuration per (genome, locus set), cycling through the configuration grid so that the grid is
                # covered many times over the enumeration (every configuration meets every genome class)
                cfgs = [(0.25, 0.1, False, W, 1.0), (0.1, 0.5, False, W, 1.0), (0.25, 0.5, True, W - 1, 1.0), (0.1, 0.1, True, W - 4, 0.5),
                        (0.25, 0.5, True, W, 1.0), (0.25, 0.0, False, W, 1.0)]
                ks = [(gi + li) % len(cfgs)] if tier == "quick" else [(gi + li) % len(cfgs), (gi + li + 2) % len(cfgs)]
                for k in ks:
                    width, mnp, use_bw, ow, beta = cfgs[k]
                    loci = pandas.DataFrame(list(lset), columns=["chrom", "start", "end"])
                    # the caller's frame may carry any index (filtered / concatenated / sorted frames): only the row order matters
                    st_ = (gi + li) % 4
                    if st_ == 1:
                        loci.index = list(range(len(loci) - 1, -1, -1))
                    elif st_ == 2:
                        loci.index = [0] * len(loci)
                    elif st_ == 3:
                        loci.index = ["row%d" % ((5 * i + 2) % 7) for i in range(len(loci))]
                    for rs in ((seed,) if (sh.get("reduced") or tier == "quick") else (0, 1 + seed)):
                        case = dict(fn="extract_matching_loci", tiles=tiles, tail=tail, loci=[list(x) for x in lset], gc_bin_width=width, max_n_perc=mnp,
                                    bigwig=use_bw, out_window=ow, signal_beta=beta, random_state=rs)
                        kw = dict(in_window=W, out_window=ow, max_n_perc=mnp, gc_bin_width=width, bigwig=bw if use_bw else None,
                                  signal_beta=beta, random_state=rs, n_jobs=1)
                        st, df = call(extract_matching_loci, loci, fa, **kw)
                        if st != "ok":
                            rec.case(1, 0)
                            if use_bw and not any(c in seqs and (s + (e - s) // 2) - W // 2 >= 0 and (s + (e - s) // 2) + (W + 1) // 2 <= len(seqs[c]) for (c, s, e) in lset):
                                rec.count("refused_no_valid_input_with_bigwig")
                                continue
                            rec.violation("match:raises", case, observed=df)
                            continue
                        chroms_bg = sorted(set(c for c, _, _ in lset))
                        n = check_result(rec, case, df, seqs, sigs, list(lset), chroms_bg, W, ow, width, mnp, use_bw, beta)
                        rec.case(1, int(bool(n)))
                        if n:
                            n_ret += n
                        if n is not None and rs in (0, seed) and not sh.get("reduced") and (li % 3 == 0 or tier != "quick"):
                            st2, df2 = call(extract_matching_loci, loci, fa, **kw)
                            if st2 != "ok" or not df.equals(df2):
                                rec.violation("match:not_deterministic", case)
                            rec.observe(tiles, lset, k, [tuple(r) for r in df.itertuples(index=False)])
            for f in (fa, fa + ".fai", bw):
                if f and os.path.exists(f):
                    os.remove(f)
        rec.count("rows_checked", n_ret)
        rec.sample(dict(kind="match", palette=pal, tiles_per_genome=K, first=sh["first"], locus_sets="all 1-2 placement subsets (boundary / inside / straddling / off-end)",
                        configs="6 (width, max_n_perc, bigwig, out_window, beta) cycled"))
    finally:
        shutil.rmtree(d, ignore_errors=True)


# --------------------------------------------------------------------------------------------- schedules
class ShimParallel:
    """joblib.Parallel replacement whose completion order is an explorer choice (model of joblib's documented
    semantics: list / generator return results in submission order, generator_unordered in completion order)."""
    order = None
    calls = 0

    def __init__(self, n_jobs=None, return_as="list", **kw):
        self.return_as = return_as

    def __call__(self, tasks):
        tasks = list(tasks)
        ShimParallel.calls += 1
        order = ShimParallel.order or list(range(len(tasks)))
        order = [i for i in order if i < len(tasks)] + [i for i in range(len(tasks)) if i not in order]
        results = {}
        for i in order:                      # jobs complete in the chosen order
            f, a, k = tasks[i]
            results[i] = f(*a, **k)
        if self.return_as == "generator_unordered":
            return (results[i] for i in order)
        if self.return_as == "generator":
            return (results[i] for i in range(len(tasks)))
        return [results[i] for i in range(len(tasks))]


def run_sched(rec, tier, seed):
    import joblib
    import pandas
    from tangermeme import match as M
    d = env.scratch_dir("c17s")
    try:
        genomes = [
            [("c1", ["g5", "g0", "g5", "g10", "g5", "q5", "g0"], "AC"), ("c2", ["g5", "g5", "g10", "g0"], ""), ("c3", ["g0", "g5", "q5", "g5", "g10"], "ACGT")],
            [("c1", ["g0", "g0", "g5"], ""), ("c2", ["g5", "g0", "g0", "g5", "g5", "g5"], "A"), ("c3", ["g5", "g10", "g10"], "")],
        ]
        for gi, chroms in enumerate(genomes):
            fa, bw, seqs, sigs = write_genome(d, chroms, "s%d" % gi)
            lsets = [[("c1", 3, 6), ("c2", 13, 16), ("c3", 2, 9)], [("c1", 20, 30), ("c3", 0, 10), ("c3", 33, 36), ("c2", 5, 15)],
                     [("c2", 1, 9), ("c1", 1, 9)]]
            for lset in lsets:
                loci = pandas.DataFrame(lset, columns=["chrom", "start", "end"])
                for rs in (0, 7 + seed):
                    for use_bw in (False, True):
                        kw = dict(in_window=W, out_window=W - 2, max_n_perc=0.1, gc_bin_width=0.25, bigwig=bw if use_bw else None,
                                  signal_beta=1.0, random_state=rs)
                        case = dict(fn="extract_matching_loci", genome=gi, loci=lset, random_state=rs, bigwig=use_bw)
                        st, base = call(M.extract_matching_loci, loci, fa, n_jobs=1, **kw)
                        if st != "ok":
                            rec.violation("match:raises", case, observed=base)
                            continue
                        chroms_bg = sorted(set(c for c, _, _ in lset))
                        check_result(rec, case, base, seqs, sigs, lset, chroms_bg, W, W - 2, 0.25, 0.1, use_bw, 1.0)
                        nchr = len(chroms_bg)
                        # model: every completion order of the per-chromosome jobs
                        g = dict(M.__dict__)
                        g["Parallel"] = ShimParallel
                        g["delayed"] = lambda f: (lambda *a, **k: (f, a, k))
                        f_shim = rebind(M.extract_matching_loci, g)
                        for perm in itertools.permutations(range(nchr)):
                            ShimParallel.order = list(perm)
                            ShimParallel.calls = 0
                            st2, got = call(f_shim, loci, fa, n_jobs=nchr, **kw)
                            rec.case(1, 1)
                            rec.count("schedules_explored")
                            if ShimParallel.calls != 1:
                                rec.note("scheduler shim saw %d Parallel calls" % ShimParallel.calls)
                            if st2 != "ok" or not got.reset_index(drop=True).equals(base.reset_index(drop=True)):
                                rec.violation("match:result_depends_on_completion_order", dict(case, completion_order=list(perm)),
                                              expected=[tuple(r) for r in base.itertuples(index=False)],
                                              observed=[tuple(r) for r in got.itertuples(index=False)] if st2 == "ok" else got)
                        ShimParallel.order = None
                        # implementation: real joblib
                        for nj in (2, 3, 4):
                            with joblib.parallel_config(backend="threading"):
                                st3, got = call(M.extract_matching_loci, loci, fa, n_jobs=nj, **kw)
                            rec.case(1, 1)
                            rec.count("real_joblib_runs")
                            if st3 != "ok" or not got.reset_index(drop=True).equals(base.reset_index(drop=True)):
                                rec.violation("match:result_depends_on_n_jobs", dict(case, n_jobs=nj, backend="threading"),
                                              observed=got if st3 != "ok" else [tuple(r) for r in got.itertuples(index=False)])
                        rec.observe(gi, lset, rs, [tuple(r) for r in base.itertuples(index=False)])
            if tier != "quick" or gi == 0:
                loci = pandas.DataFrame(lsets[0], columns=["chrom", "start", "end"])
                kw = dict(in_window=W, out_window=W - 2, max_n_perc=0.1, gc_bin_width=0.25, random_state=3)
                st, base = call(M.extract_matching_loci, loci, fa, n_jobs=1, **kw)
                st3, got = call(M.extract_matching_loci, loci, fa, n_jobs=2, **kw)      # default backend (loky processes)
                rec.case(1, 1)
                rec.count("real_joblib_runs")
                if st != "ok" or st3 != "ok" or not got.reset_index(drop=True).equals(base.reset_index(drop=True)):
                    rec.violation("match:result_depends_on_n_jobs", dict(fn="extract_matching_loci", genome=gi, n_jobs=2, backend="loky"))
        rec.sample(dict(kind="sched", genomes=2, chromosomes=3, completion_orders="all permutations", real_n_jobs=[1, 2, 3, 4]))
    finally:
        shutil.rmtree(d, ignore_errors=True)
        try:      # loky keeps idle worker processes for 300 s; they would keep this shard's process alive
            from joblib.externals.loky import get_reusable_executor
            get_reusable_executor().shutdown(wait=True, kill_workers=True)
        except Exception:  # noqa: BLE001
            pass


def run_mega(rec, tier, seed):
    """A chromosome longer than 2**20 bases with in_window = 50 and 130 (neither divides 2**20): tiles beyond the first megabase must
    still be judged by their own sequence."""
    import pandas
    from tangermeme.match import extract_matching_loci
    d = env.scratch_dir("c17mega")
    try:
        for w in (50, 130):
            ntiles = (1 << 20) // w + 600
            kinds = ["g5", "g0", "g10", "n2", "g5", "q5", "n6", "g2", "g8"]
            rs = numpy.random.RandomState(7 + seed)
            seq_parts, sig_parts = [], []
            tile_kind = []
            for t in range(ntiles):
                k = kinds[int(rs.randint(0, len(kinds)))] if t > (1 << 20) // w - 50 else kinds[t % 5]
                tile_kind.append(k)
                base = TILES[k]
                seq_parts.append((base * (w // 10 + 1))[:w] if w % 10 else base * (w // 10))
            s = "".join(seq_parts) + "ACGTACG"
            fa = os.path.join(d, "mega%d.fa" % w)
            with open(fa, "w") as fh:
                fh.write(">cM\n")
                for i in range(0, len(s), 80):
                    fh.write(s[i:i + 80] + "\n")
                fh.write(">cS\n" + "ACGTTGCAAC" * 40 + "\n")
            seqs = {"cM": s.upper(), "cS": ("ACGTTGCAAC" * 40)}
            # inputs beyond the first megabase (so that the matched background is drawn there too) plus one on the small chromosome
            t0 = (1 << 20) // w + 20
            lset = [("cM", (t0 + 3 * j) * w + 5, (t0 + 3 * j) * w + w - 5) for j in range(60)] + [("cS", 100, 150)]
            loci = pandas.DataFrame(lset, columns=["chrom", "start", "end"])
            for rsd in (seed, seed + 1):
                case = dict(fn="extract_matching_loci", genome="megabase pattern", in_window=w, n_loci=len(lset), random_state=rsd)
                st, df = call(extract_matching_loci, loci, fa, in_window=w, out_window=w, max_n_perc=0.1, gc_bin_width=0.1, random_state=rsd, n_jobs=1)
                rec.case(1, 1)
                if st != "ok":
                    rec.violation("match:raises:megabase", case, observed=df)
                    continue
                # every returned tile judged by its OWN sequence
                bad = None
                for (c, a_, b_) in df.itertuples(index=False):
                    tile = seqs[c][a_:b_]
                    if a_ % w or b_ != a_ + w or b_ > len(seqs[c]) or tile.count("N") / w > 0.1:
                        bad = (c, int(a_), int(b_), tile.count("N") / w)
                        break
                if bad:
                    rec.violation("match:row_invalid:megabase", dict(case, row=list(bad)), msg="returned tile is misaligned or exceeds max_n_perc")
                    continue
                n_beyond = int(sum(1 for (c, a_, b_) in df.itertuples(index=False) if c == "cM" and a_ >= (1 << 20)))
                rec.count("megabase_rows_beyond_2^20", n_beyond)
                check_result(rec, case, df, seqs, {k: numpy.zeros(len(v)) for k, v in seqs.items()}, lset, ["cM", "cS"], w, w, 0.1, 0.1, False, 1.0)
                rec.observe(w, rsd, len(df))
            os.remove(fa)
        rec.sample(dict(kind="megabase", in_windows=[50, 130], chromosome_length=">2**20", inputs=61))
    finally:
        shutil.rmtree(d, ignore_errors=True)


def run_shard(sh, tier, seed):
    global W, TILES
    if sh.get("scale"):
        W = 10 * sh["scale"]
        TILES = {k: v * sh["scale"] for k, v in TILES.items()}
    rec = Recorder(PID, sh["name"])
    if sh["kind"] == "chrom":
        run_chrom(rec, sh, tier, seed)
    elif sh["kind"] == "chrom_exact":
        run_chrom_exact(rec, tier, seed)
    elif sh["kind"] == "mega":
        run_mega(rec, tier, seed)
    elif sh["kind"] == "match":
        run_match(rec, sh, tier, seed)
    else:
        run_sched(rec, tier, seed)
    return rec.result()


def replay(v):
    c = v["case"]
    rec = Recorder(PID, "replay")
    if c.get("fn") == "_extract_and_filter_chrom" and "in_window" in c:
        run_chrom_exact(rec, "quick", 0)
    elif c.get("fn") == "_extract_and_filter_chrom":
        run_chrom(rec, dict(k=len(c["tiles"]), part=0, parts=1), "thorough", 0)
    elif "genome" in c:
        run_sched(rec, "thorough", 0)
    else:
        pal = sorted(set(c["tiles"]) | {"g0", "g5", "g10", "n2"})
        run_match(rec, dict(pal=pal, K=len(c["tiles"]), first=c["tiles"][:max(1, len(c["tiles"]) - 2)]), "thorough", max(0, c.get("random_state", 1) - 1))
    hit = [x for x in rec.violations if x["sig"] == v["sig"]]
    return (not hit), "replayed family: %d violations with signature %s%s" % (
        rec.viol_sigs.get(v["sig"], 0), v["sig"], ("\nfirst: %s" % hit[0]) if hit else "")
