"""C11 - FIMO p-value tables are the exact tail distribution of the discretised score.

Exhaustive over all PWMs of width 1..w over a palette of 7 column types (uniform, one-hot, one zero, two zeros, skewed,
dyadic, near-uniform), bin sizes and pseudocounts; the COMPILED _pwm_to_mapping is the subject (fast-math / uninitialised
buffers only exist in compiled code).  Oracle: exact integer tail counts (DP in Python big ints; brute force over all
4**w sequences for w <= 7 as a second, independent count).
"""
import itertools
import math

import numpy

from mc.common import call
from mc.refs import fimo_ref as R
from mc.report import Recorder

PID = "C11"
LEVEL = "exploration"
RULE = ("cases = (PWM as a sequence of palette columns, bin_size, eps) enumerated completely for widths in the bound (+ fixed long "
        "patterns); every table entry is compared with the exact tail probability; non-trivial = the PWM has >= 2 distinct "
        "attainable scores")
ASSUMPTIONS = ["null model: uniform over the 4 characters (as in the implementation: log_bg = log2(0.25))",
               "discretisation = numpy.round(log2((p+eps)/0.25)/bin_size) evaluated on the same float64 values"]

PAL = [[0.25, 0.25, 0.25, 0.25], [1.0, 0.0, 0.0, 0.0], [1 / 3., 1 / 3., 1 / 3., 0.0], [0.5, 0.5, 0.0, 0.0], [0.7, 0.1, 0.1, 0.1],
       [0.5, 0.25, 0.125, 0.125], [0.26, 0.24, 0.25, 0.25]]
BINS = [1.0, 0.5, 0.3, 0.1, 0.07, 0.01]
EPSS = [1e-6, 1e-4, 0.1]


def bound(tier):
    return ("all PWMs of width 1..3 over the 7-column palette (rotated character order per column) x 6 bin sizes (incl. non-integer reciprocals 0.3, 0.07) x 3 eps; widths 6, 10, 16"
            if tier == "quick" else
            "all PWMs of width 1..5 over the 7-column palette x 6 bin sizes x 3 eps; widths 6, 7 (brute force) and 10, 13, 16, 20, 30 (DP)")


def shards(tier, seed):
    out = []
    wmax = 3 if tier == "quick" else 5
    for w in range(1, wmax + 1):
        parts = 1 if w <= 3 else (7 if w == 4 else 49)
        for p in range(parts):
            out.append(dict(name="w%d/%d" % (w, p), w=w, part=p, parts=parts, weight=7 ** w // parts))
    for w in ((6, 10, 16) if tier == "quick" else (6, 7, 10, 13, 16, 20, 30)):
        out.append(dict(name="long/w%d" % w, w=w, long=True, weight=4 ** min(w, 7)))
    out.append(dict(name="bin_edges", bin_edges=True, w=0, weight=300))
    out.append(dict(name="fimo_history", fimo_history=True, w=0, weight=800))
    out.append(dict(name="fimo_lookup/many_motifs", fimo_lookup="many", w=0, numba_threads=4, weight=2500))
    out.append(dict(name="fimo_lookup/planted", fimo_lookup="planted", w=0, numba_threads=4, weight=1500))
    return out


def build_pwm(cols, rot=True):
    """columns from the palette; the character order of column i is rotated by i so that the best character moves."""
    pw = numpy.zeros((4, len(cols)))
    for i, c in enumerate(cols):
        v = PAL[c]
        r = (i if rot else 0) % 4
        pw[:, i] = v[r:] + v[:r]
    return pw


def check_table(rec, case, pwm, bin_size, eps, brute, log_pwm=None):
    from tangermeme.tools.fimo import _pwm_to_mapping
    if log_pwm is None:
        log_pwm = numpy.log2(pwm + eps) - math.log2(0.25)
    st, val = call(_pwm_to_mapping, log_pwm, bin_size)
    if st != "ok":
        rec.violation("_pwm_to_mapping:raises", case, observed=val)
        return
    smallest, table = int(val[0]), numpy.asarray(val[1], dtype=numpy.float64)
    ip = R.int_scores(log_pwm, bin_size)
    cnt = R.score_counts(ip)
    if brute:
        cnt2 = R.score_counts_bruteforce(ip)
        assert cnt2 == cnt, "reference DP and brute force disagree (harness bug)"
    bins = list(range(smallest, smallest + len(table)))
    ref, lo, hi = R.tail_log2(cnt, 4, pwm.shape[1], bins)
    ref = numpy.array(ref)
    w1 = ":width1" if pwm.shape[1] == 1 else ""
    if numpy.isnan(table).any():
        rec.violation("_pwm_to_mapping:nan" + w1, case, observed=int(numpy.isnan(table).sum()))
        return
    if smallest > lo or smallest + len(table) - 1 <= hi:
        rec.violation("_pwm_to_mapping:table_does_not_cover_attainable_scores" + w1, case, expected=[lo, hi], observed=[smallest, smallest + len(table) - 1])
        return
    if (table > 1e-12).any():
        rec.violation("_pwm_to_mapping:p_above_1" + w1, case, observed=float(table.max()))
        return
    fin = numpy.isfinite(ref)
    if not numpy.array_equal(numpy.isfinite(table), fin):
        j = int(numpy.nonzero(numpy.isfinite(table) != fin)[0][0])
        rec.violation("_pwm_to_mapping:zero_region_wrong" + w1, dict(case, bin=bins[j]), expected=ref[j], observed=table[j],
                      msg="table must be exactly 0 (log -inf) above the highest attainable score and positive at or below it")
        return
    p, pr = numpy.exp2(table[fin]), numpy.exp2(ref[fin])
    err = numpy.abs(p - pr) / pr
    if (err > 1e-9).any():
        j = int(numpy.nonzero(err > 1e-9)[0][0])
        rec.violation("_pwm_to_mapping:wrong_tail_probability" + w1, dict(case, bin=bins[j]), expected=float(pr[j]), observed=float(p[j]))
        return
    if (numpy.diff(table) > 1e-12).any():
        rec.violation("_pwm_to_mapping:not_monotone" + w1, case)
        return
    if abs(table[0]) > 1e-12 or any(abs(table[j]) > 1e-12 for j in range(0, lo - smallest + 1)):
        rec.violation("_pwm_to_mapping:not_1_at_lowest_score" + w1, case, observed=float(table[0]))
        return
    rec.observe(case["cols"], bin_size, eps, smallest, len(table), float(table[fin].sum()))
    return len(cnt)


def run_bin_edges(rec, tier, seed):
    """Log-odds that lie EXACTLY on a bin edge (an odd multiple of half a bin): the discretised score is numpy's round-half-to-even of
    score / bin_size, and the table must be the tail distribution of that."""
    vals = [-2.5, -1.5, -0.5, 0.5, 1.5, 2.5, 3.5, 0.0, 1.0, -1.0, 0.25, -0.75]
    n = 0
    for bs in (1.0, 0.5, 0.25, 2.0):
        for w in (1, 2, 3, 5):
            for k in range(12):
                # every entry an exact multiple of bs/2 (exactly representable): many of them are ties for the rounding
                log_pwm = numpy.array([[vals[(i * 5 + j * 3 + k + (i * j) % 4) % len(vals)] * bs for j in range(w)] for i in range(4)], dtype=numpy.float64)
                case = dict(fn="_pwm_to_mapping", cols="log-odds on bin edges", log_pwm=log_pwm.tolist(), bin_size=bs, eps=None)
                rec.case(1, 1)
                check_table(rec, case, numpy.zeros((4, w)), bs, 0.0, brute=w <= 3, log_pwm=log_pwm)
                n += 1
    # the same through a probability: log2((p + eps) / 0.25) == 0.5 exactly
    for target in (0.5, 1.5, -0.5):
        p0 = 0.25 * 2.0 ** target - 1e-4
        cand = [p0]
        for _ in range(6):
            cand += [numpy.nextafter(cand[-1], 1.0)]
        for _ in range(6):
            cand += [numpy.nextafter(cand[0] if len(cand) == 7 else cand[-1], 0.0)]
        hit = [p for p in cand if (numpy.log2(p + 1e-4) - math.log2(0.25)) == target]
        rec.count("exact_edge_probabilities_found", len(hit))
        for p in hit[:1]:
            pw = numpy.array([[p, 0.25], [(1 - p) / 3, 0.25], [(1 - p) / 3, 0.25], [(1 - p) / 3, 0.25]])
            case = dict(fn="_pwm_to_mapping", cols="probability with log-odds exactly %s" % target, p=float(p), bin_size=1.0, eps=1e-4)
            rec.case(1, 1)
            check_table(rec, case, pw, 1.0, 1e-4, brute=True)
    rec.sample(dict(kind="bin_edges", matrices=n, bin_sizes=[1.0, 0.5, 0.25, 2.0], widths=[1, 2, 3, 5]))


def run_shard(sh, tier, seed):
    rec = Recorder(PID, sh["name"])
    if sh.get("fimo_history"):
        # the tables as used inside fimo(): p-values of reported hits over a call history that varies eps / bin size / PWM values under
        # the same motif names (a table kept from an earlier call would show up as a wrong p-value)
        from mc.props import c12
        c12.run_history(rec, tier, seed)
        return rec.result()
    if sh.get("bin_edges"):
        run_bin_edges(rec, tier, seed)
        return rec.result()
    if sh.get("fimo_lookup"):
        # the association score -> table entry as fimo() performs it: up to 300 motifs in one call (every hit must be looked up in its own
        # motif's table), and consensus instances whose real-valued score lies several bins above the highest attainable discretised
        # score (exact p-value 0)
        from mc.props import c12
        if sh["fimo_lookup"] == "many":
            c12.run_many_motifs(rec, tier, seed)
        else:
            c12.run_planted(rec, dict(L=300), tier, seed)
        return rec.result()
    w = sh["w"]
    if sh.get("long"):
        pats = [[(i * (k + 2) + k) % 7 for i in range(w)] for k in range(4)] + [[1] * w, [0] * w, [4] * (w - 1) + [1]]
        for cols in pats:
            for bs in (BINS if w <= 10 else [1.0, 0.1]):
                for eps in (EPSS if w <= 10 else [1e-4]):
                    case = dict(fn="_pwm_to_mapping", cols=cols, bin_size=bs, eps=eps, rotated=True)
                    n = check_table(rec, case, build_pwm(cols), bs, eps, brute=(w <= 7))
                    rec.case(1, int(bool(n) and n >= 2))
        rec.sample(dict(width=w, patterns=pats[:2], bins=BINS, eps=EPSS))
        return rec.result()
    combos = list(itertools.product(range(len(PAL)), repeat=w))[sh["part"]::sh["parts"]]
    for cols in combos:
        for bs in BINS:
            for eps in EPSS:
                for rot in ((True,) if w > 1 else (True, False)):
                    case = dict(fn="_pwm_to_mapping", cols=list(cols), bin_size=bs, eps=eps, rotated=rot)
                    n = check_table(rec, case, build_pwm(cols, rot), bs, eps, brute=True)
                    rec.case(1, int(bool(n) and n >= 2))
    rec.sample(dict(width=w, pwms=len(combos), palette=PAL, bins=BINS, eps=EPSS, example=build_pwm(combos[len(combos) // 2]).tolist()))
    return rec.result()


def replay(v):
    c = v["case"]
    rec = Recorder(PID, "replay")
    if "history_order" in c:
        from mc.props import c12
        c12.run_history(rec, "quick", 0)
        hit = [x for x in rec.violations if x["sig"] == v["sig"]]
        return (not hit), "replayed the fimo call history: %d violations with signature %s" % (len(hit), v["sig"])
    if "log_pwm" in c:
        lp = numpy.array(c["log_pwm"], dtype=numpy.float64)
        check_table(rec, dict(c), numpy.zeros_like(lp), c["bin_size"], 0.0, brute=lp.shape[1] <= 3, log_pwm=lp)
        return (not rec.violations), "_pwm_to_mapping(log-odds on bin edges, bin_size=%s): %s" % (c["bin_size"], rec.violations[:1] or "table equals the exact tail distribution")
    if "p" in c and "cols" in c and str(c["cols"]).startswith("probability"):
        run_bin_edges(rec, "quick", 0)
        hit = [x for x in rec.violations if x["sig"] == v["sig"]]
        return (not hit), "re-ran the bin-edge family: %d violations with signature %s" % (len(hit), v["sig"])
    if "many motifs" in c.get("input", "") or "planted" in c.get("input", ""):
        from mc.props import c12
        if "many motifs" in c["input"]:
            c12.run_many_motifs(rec, "quick", c.get("seed", 0))
        else:
            c12.run_planted(rec, dict(L=c["L"]), "quick", c.get("seed", 0))
        hit = [x for x in rec.violations if x["sig"] == v["sig"]]
        return (not hit), "replayed the fimo() lookups: %d violations with signature %s" % (len(hit), v["sig"])
    check_table(rec, dict(c), build_pwm(c["cols"], c.get("rotated", True)), c["bin_size"], c["eps"], brute=len(c["cols"]) <= 7)
    return (not rec.violations), "_pwm_to_mapping(PWM from palette columns %s, bin_size=%s, eps=%s): %s" % (
        c["cols"], c["bin_size"], c["eps"], rec.violations[:1] or "table equals the exact tail distribution")
