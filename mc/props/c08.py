"""C08 - perturbation wrappers evaluate exactly the input that each output index denotes.

The model returns (an encoding of) its entire input - the flattened X and every extra argument - so
whatever wrong input reaches it is visible in the output.  For every configuration in the grid the
wrapper output is compared, entry by entry, with explicit Python loops that build the denoted input
with the ersatz primitives and call `func` on ONE example at a time.
"""
import itertools

import numpy
import torch

from mc.common import call, ohe
from mc.report import Recorder

PID = "C08"
LEVEL = "exploration"
REDUCED = {'quick': 'every third spacing grid, every second annotation set, reduced region list'}
RULE = ("cases = (wrapper, B, L, #model outputs, #extra args, motif/region/spacing/annotation/product-set configuration, "
        "batch_size, func) enumerated completely over the stated grid; every output entry of every case is compared; "
        "non-trivial = B >= 2 or several shuffles/spacings/annotations/argument rows (index arithmetic exercised)")
ASSUMPTIONS = ["func in {predict, deep_lift_shap with explicit seeds, marginalize (nested in apply_*)}",
               "shuffle j of the stated seed is generated with ersatz.shuffle (decided by C02)", "CPU only"]
A = 4


class IdModel(torch.nn.Module):
    """Output = flattened input and args (exact); n_out in 1..3 selects tensor / tuple / list."""
    def __init__(self, n_out, double=False):
        super().__init__()
        self.n_out = n_out
        self.double_ = double

    def forward(self, X, *args):
        if self.double_:
            # args are used in the precision they arrive in (float64 fractions / int64 values beyond 2^24 survive only if nobody re-types them)
            y = torch.cat([X.double().flatten(1)] + [a.double().flatten(1) for a in args], dim=1)
        else:
            y = torch.cat([X.float().flatten(1)] + [a.float().flatten(1) for a in args], dim=1)
        if self.n_out == 1:
            return y
        if self.n_out == 2:
            return y, (2 * y[:, :3]).unsqueeze(-1)
        return [y, -y, y[:, :1] + 1]


class LinModel(torch.nn.Module):
    """Differentiable exact-integer model for func=deep_lift_shap."""
    def __init__(self, L, seed):
        super().__init__()
        g = torch.Generator().manual_seed(5 + seed)
        self.conv = torch.nn.Conv1d(A, 2, 2, bias=True)
        self.relu = torch.nn.ReLU()
        self.lin = torch.nn.Linear(2 * (L - 1), 2)
        with torch.no_grad():
            self.conv.weight.copy_(torch.randint(-2, 3, self.conv.weight.shape, generator=g).float())
            self.conv.bias.copy_(torch.randint(-1, 2, self.conv.bias.shape, generator=g).float())
            self.lin.weight.copy_(torch.randint(-2, 3, self.lin.weight.shape, generator=g).float())
            self.lin.bias.zero_()

    def forward(self, X, *args):
        y = self.lin(self.relu(self.conv(X)).flatten(1))
        for a in args:
            y = y + a.float().flatten(1).sum(1, keepdim=True)
        return y


def bound(tier):
    return ("B in {1,2,3}, L=6, widths 1-3, n shuffles 1..3, annotations 1..4, product sets 1..3, batch sizes {1,2,5,32}"
            if tier == "quick" else
            "B in {1,2,3}, L in {6,8}, widths 1-3, every start, n shuffles 1..5, every region, annotations 1..6, spacing grids 1-3 rows x 1-2 gaps, product sets 1..4, batch sizes {1,2,3,5,32}, func in {predict, deep_lift_shap}")


def shards(tier, seed):
    out = []
    Ls = (6,) if tier == "quick" else (6, 8)
    for n_out in (1, 2):
        out.append(dict(name="large_kwargs/out%d" % n_out, w="large", L=12, n_out=n_out, weight=400))
    for w in ("marginalize", "ablate", "space", "marginalize_annotations", "ablate_annotations", "apply_pairwise",
              "apply_product", "dls"):
        for L in Ls:
            for n_out in (1, 2, 3):
                if w == "dls" and n_out > 1:
                    continue
                out.append(dict(name="%s/L%d/out%d" % (w, L, n_out), w=w, L=L, n_out=n_out, weight=L * 10))
    return out


def _X(B, L, seed=0):
    codes = numpy.stack([(numpy.arange(L) * (b + 1) + b + (numpy.arange(L) // 3) + seed) % A for b in range(B)])
    return ohe(codes, A)


def _args(B, k, off=0):
    return [torch.arange(B, dtype=torch.float32)[:, None] * (10 ** (j + 1)) + 7 * (j + 1) + off + torch.arange(j + 1, dtype=torch.float32)[None, :]
            for j in range(k)]


def _aslist(y):
    return [y] if isinstance(y, torch.Tensor) else list(y)


def _cmp(rec, sig, case, got, exp):
    """got/exp: lists of tensors (one per model output)."""
    if len(got) != len(exp):
        rec.violation(sig + ":n_outputs", case, expected=len(exp), observed=len(got))
        return False
    for k in range(len(exp)):
        if tuple(got[k].shape) != tuple(exp[k].shape):
            rec.violation(sig + ":shape", dict(case, output=k), expected=list(exp[k].shape), observed=list(got[k].shape))
            return False
        if not torch.equal(got[k].double(), exp[k].double()):
            idx = (got[k].double() != exp[k].double()).nonzero()[0].tolist()
            rec.violation(sig + ":value", dict(case, output=k, index=idx[:3]), expected=exp[k][tuple(idx[:-1])][:12],
                          observed=got[k][tuple(idx[:-1])][:12])
            return False
    return True


def _pred1(model, x, args_i):
    """func=predict on ONE example (independent of wrapper batching)."""
    from tangermeme.predict import predict
    return _aslist(predict(model, x, args=args_i, device="cpu"))


def _stack(rows):
    """rows: list over leading index of list-over-outputs of tensors -> list over outputs of stacked tensors"""
    return [torch.stack([r[k] for r in rows]) for k in range(len(rows[0]))]


def run_marginalize(rec, sh, tier, seed):
    from tangermeme.ersatz import substitute
    from tangermeme.marginalize import marginalize
    L, n_out = sh["L"], sh["n_out"]
    model = IdModel(n_out)
    for B in (1, 2, 3):
        X = _X(B, L, seed)
        for nargs in (0, 1, 2):
            args = _args(B, nargs) or None
            for w in (1, 2, 3):
                mots = {"str": "GAT"[:w], "shared": _X(1, w, 2), "per": _X(B, w, 1)}
                for form, motif in mots.items():
                    for start in [None] + list(range(0, L - w + 1)):
                        for bs in ((1, 2, 32) if tier == "quick" else (1, 2, 3, 5, 32)):
                            case = dict(w="marginalize", B=B, L=L, n_out=n_out, n_args=nargs, motif=form, width=w, start=start, batch_size=bs)
                            kw = dict(args=args) if args else {}
                            st, val = call(marginalize, model, X, motif, start=start, batch_size=bs, device="cpu", **kw)
                            rec.case(1, int(B >= 2))
                            if st != "ok":
                                rec.violation("marginalize:raises", case, observed=val)
                                continue
                            Xp = substitute(X, motif, start=start)
                            eb = _stack([[o[0] for o in _pred1(model, X[i:i + 1], [a[i:i + 1] for a in args] if args else None)] for i in range(B)])
                            ea = _stack([[o[0] for o in _pred1(model, Xp[i:i + 1], [a[i:i + 1] for a in args] if args else None)] for i in range(B)])
                            if _cmp(rec, "marginalize:before", case, _aslist(val[0]), eb) and _cmp(rec, "marginalize:after", case, _aslist(val[1]), ea):
                                rec.observe(case, float(ea[0].sum()))
    rec.sample(dict(w="marginalize", L=L, n_out=n_out, B="1..3", widths="1..3", starts="None,0..L-w"))


def run_ablate(rec, sh, tier, seed):
    from tangermeme.ablate import ablate
    from tangermeme.ersatz import shuffle
    L, n_out = sh["L"], sh["n_out"]
    model = IdModel(n_out)
    regions = [(s, e) for s in range(L) for e in range(s + 2, L + 1)]
    if tier == "quick":
        regions = [r for r in regions if r[0] in (0, 2) or r[1] == L]
    # negative end (python-style, as accepted by ersatz.shuffle: -1 = through the last position)
    regions += [(0, -1), (2, -1), (1, -2), (0, -3)]
    for B in (1, 2, 3):
        X = _X(B, L, seed)
        for nargs in (0, 1, 2):
            args = _args(B, nargs) or None
            for (s, e) in regions:
                for n in ((1, 3) if tier == "quick" else (1, 2, 3, 5)):
                    for rs in (0, 3 + seed):
                        bs = (1, 2, 5, 32)[(s + e + n + nargs) % 4]
                        case = dict(w="ablate", B=B, L=L, n_out=n_out, n_args=nargs, start=s, end=e, n=n, random_state=rs, batch_size=bs)
                        st, val = call(ablate, model, X, s, e, n=n, args=args, random_state=rs, batch_size=bs, device="cpu")
                        rec.case(1, int(B >= 2 or n >= 2))
                        if st != "ok":
                            rec.violation("ablate:raises", case, observed=val)
                            continue
                        Xs = shuffle(X, start=s, end=e, n=n, random_state=rs)
                        eb = _stack([[o[0] for o in _pred1(model, X[i:i + 1], [a[i:i + 1] for a in args] if args else None)] for i in range(B)])
                        ea = _stack([_stack([[o[0] for o in _pred1(model, Xs[i, j:j + 1], [a[i:i + 1] for a in args] if args else None)]
                                             for j in range(n)]) for i in range(B)])
                        if _cmp(rec, "ablate:before", case, _aslist(val[0]), eb) and _cmp(rec, "ablate:after", case, _aslist(val[1]), ea):
                            rec.observe(case, float(ea[0].sum()))
    rec.sample(dict(w="ablate", L=L, n_out=n_out, regions=len(regions), n="1..5"))


def run_space(rec, sh, tier, seed):
    from tangermeme.ersatz import multisubstitute
    from tangermeme.space import space
    L, n_out = sh["L"], sh["n_out"]
    model = IdModel(n_out)
    for B in (1, 2, 3):
        X = _X(B, L, seed)
        for nargs in (0, 1, 2):
            args = _args(B, nargs) or None
            for motifs in (["G", "AT"], ["CA", "T"], ["A", "C", "G"]):
                k = len(motifs)
                tot = sum(len(m) for m in motifs)
                gaps = [g for g in itertools.product(range(0, L - tot + 1), repeat=k - 1) if sum(g) + tot <= L]
                grids = [[g] for g in gaps] + [list(p) for p in itertools.permutations(gaps[:4], 2)] + [gaps[:3], gaps[-3:][::-1]]
                if tier == "quick":
                    grids = grids[::3]
                for grid in grids:
                    for start_form in (0, None, "0-d tensor"):
                        # the start position also as a 0-d tensor (e.g. the result of an argmax): it denotes position 0 for every spacing
                        # row and must come back unchanged
                        start = 0 if start_form == "0-d tensor" else start_form
                        maxspan = max(sum(g) for g in grid) + tot
                        if start == 0 and maxspan > L:
                            continue
                        if start_form == "0-d tensor" and len(grid) < 2:
                            continue
                        start_arg = torch.tensor(0) if start_form == "0-d tensor" else start
                        bs = (1, 2, 5, 32)[(len(grid) + nargs + B) % 4]
                        case = dict(w="space", B=B, L=L, n_out=n_out, n_args=nargs, motifs=motifs, spacing=grid, start=start, start_form=str(start_form), batch_size=bs)
                        kw = dict(args=args) if args else {}
                        st, val = call(space, model, X, motifs, [list(g) for g in grid], start=start_arg, batch_size=bs, device="cpu", **kw)
                        rec.case(1, int(B >= 2 or len(grid) >= 2))
                        if start_form == "0-d tensor" and int(start_arg) != 0:
                            rec.violation("space:start_argument_modified", case, expected=0, observed=int(start_arg))
                        if st != "ok":
                            rec.violation("space:raises", case, observed=val)
                            continue
                        eb1 = [[o[0] for o in _pred1(model, X[i:i + 1], [a[i:i + 1] for a in args] if args else None)] for i in range(B)]
                        eb = _stack([_stack([eb1[i] for _ in grid]) for i in range(B)])
                        ea = []
                        for i in range(B):
                            row = []
                            for g in grid:
                                Xp = multisubstitute(X, motifs, list(g), start=start)
                                row.append([o[0] for o in _pred1(model, Xp[i:i + 1], [a[i:i + 1] for a in args] if args else None)])
                            ea.append(_stack(row))
                        ea = _stack(ea)
                        if _cmp(rec, "space:before", case, _aslist(val[0]), eb) and _cmp(rec, "space:after", case, _aslist(val[1]), ea):
                            rec.observe(case, float(ea[0].sum()))
    rec.sample(dict(w="space", L=L, n_out=n_out, motif_sets=3, grids="1-3 rows x 1-2 gaps"))


def _annotation_sets(B, L, tier):
    spans = [(i, s, e) for i in range(B) for s in range(L) for e in range(s + 2, min(L, s + 4) + 1)]
    sets = []
    for n in range(1, 7):
        # deterministic spread; includes repeated examples and spans touching both ends
        sets.append([spans[(j * 7 + n * 3) % len(spans)] for j in range(n)])
        sets.append([spans[(j * 5 + n) % len(spans)] for j in range(n)][::-1])
    sets.append([(B - 1, 0, 2), (0, L - 2, L)])
    sets.append([(0, 0, L - 1)])
    if tier == "quick":
        sets = sets[::2]
    # example indices counted from the end (Python semantics): either the documented result for that example or a loud refusal
    sets.append([(-1, 0, 2)])
    sets.append([(-B, 1, 3), (0, 0, 2)])
    return sets


def run_marg_annot(rec, sh, tier, seed):
    from tangermeme.ersatz import substitute
    from tangermeme.marginalize import marginalize_annotations
    L, n_out = sh["L"], sh["n_out"]
    model = IdModel(n_out)
    for B in (1, 2, 3):
        X = _X(B, L, seed)
        for B0 in (1, 2):
            X0 = _X(B0, L, seed + 2)
            for nargs in (0, 1):
                args = _args(B0, nargs) or None
                for ann in _annotation_sets(B, L, tier):
                    case = dict(w="marginalize_annotations", B=B, B0=B0, L=L, n_out=n_out, n_args=nargs, annotations=ann)
                    kw = dict(args=args) if args else {}
                    st, val = call(marginalize_annotations, model, X, X0, torch.tensor(ann), device="cpu", batch_size=2, **kw)
                    rec.case(1, int(len(ann) >= 2))
                    kind = "multi_output" if n_out > 1 else "single_output"
                    if st != "ok":
                        if any(r[0] < 0 for r in ann):
                            rec.count("refused_negative_example_index")
                            continue
                        rec.violation("marginalize_annotations:raises:" + kind, case, observed=val)
                        continue
                    eb, ea = [], []
                    for (i, s, e) in ann:
                        Xp = substitute(X0, X[[i]][:, :, s:e])
                        eb.append(_stack([[o[0] for o in _pred1(model, X0[j:j + 1], [a[j:j + 1] for a in args] if args else None)] for j in range(B0)]))
                        ea.append(_stack([[o[0] for o in _pred1(model, Xp[j:j + 1], [a[j:j + 1] for a in args] if args else None)] for j in range(B0)]))
                    eb, ea = _stack(eb), _stack(ea)
                    if _cmp(rec, "marginalize_annotations:before:" + kind, case, _aslist(val[0]), eb) and \
                            _cmp(rec, "marginalize_annotations:after:" + kind, case, _aslist(val[1]), ea):
                        rec.observe(case, float(ea[0].sum()))
    rec.sample(dict(w="marginalize_annotations", L=L, n_out=n_out, annotation_sets="1..6 rows"))


def run_abl_annot(rec, sh, tier, seed):
    from tangermeme.ablate import ablate_annotations
    from tangermeme.ersatz import shuffle
    L, n_out = sh["L"], sh["n_out"]
    model = IdModel(n_out)
    for B in (1, 2, 3):
        X = _X(B, L, seed)
        for n in (1, 3):
            for ann in _annotation_sets(B, L, tier):
                for rs in (0, 2 + seed):
                    case = dict(w="ablate_annotations", B=B, L=L, n_out=n_out, annotations=ann, n=n, random_state=rs)
                    st, val = call(ablate_annotations, model, X, torch.tensor(ann), n=n, random_state=rs, device="cpu", batch_size=2)
                    rec.case(1, int(len(ann) >= 2))
                    kind = "multi_output" if n_out > 1 else "single_output"
                    if st != "ok":
                        if any(r[0] < 0 for r in ann):
                            rec.count("refused_negative_example_index")
                            continue
                        rec.violation("ablate_annotations:raises:" + kind, case, observed=val)
                        continue
                    eb, ea = [], []
                    for (i, s, e) in ann:
                        Xs = shuffle(X[[i]], start=s, end=e, n=n, random_state=rs)
                        eb.append(_stack([[o[0] for o in _pred1(model, X[[i]], None)]]))
                        ea.append(_stack([_stack([[o[0] for o in _pred1(model, Xs[0, j:j + 1], None)] for j in range(n)])]))
                    eb, ea = _stack(eb), _stack(ea)
                    if _cmp(rec, "ablate_annotations:before:" + kind, case, _aslist(val[0]), eb) and \
                            _cmp(rec, "ablate_annotations:after:" + kind, case, _aslist(val[1]), ea):
                        rec.observe(case, float(ea[0].sum()))
    rec.sample(dict(w="ablate_annotations", L=L, n_out=n_out, annotation_sets="1..6 rows", n="1,3"))


def run_apply(rec, sh, tier, seed, which):
    from tangermeme.marginalize import marginalize
    from tangermeme.predict import predict
    from tangermeme.product import apply_pairwise, apply_product
    L, n_out = sh["L"], sh["n_out"]
    model = IdModel(n_out)
    sizes = (1, 2, 3) if tier == "quick" else (1, 2, 3, 4)
    for B in (1, 2, 3):
        X = _X(B, L, seed)
        if which == "pairwise":
            confs = [(m, m) for m in sizes] + [(m,) for m in sizes]
        else:
            confs = [(m0, m1) for m0 in sizes for m1 in sizes] + [(m,) for m in sizes] + [(2, 3, 2)]
        for conf, adt in [(c, "float32") for c in confs] + [(c, d) for c in confs[-2:] for d in ("float64", "int64")]:
            args = [_args(m, 1, off=100 * j)[0] for j, m in enumerate(conf)]
            model = IdModel(n_out, double=adt != "float32")
            if adt == "float64":
                args = [a.double() + 0.1 for a in args]                       # not representable in float32
            elif adt == "int64":
                args = [a.long() + (1 << 24) + 1 for a in args]               # odd values beyond 2^24
            total = B * (conf[0] if which == "pairwise" else int(numpy.prod(conf)))
            for bs in sorted(set([1, 2, 3, 5, total - 1, total, total + 1, 32])):
                if bs < 1 or (adt != "float32" and bs not in (2, total)):
                    continue
                for fname in ("predict", "marginalize"):
                    case = dict(w="apply_" + which, B=B, L=L, n_out=n_out, arg_sizes=conf, batch_size=bs, func=fname, arg_dtype=adt)
                    if fname == "predict":
                        func, fkw = predict, {}
                        def one(x, a):
                            return _aslist(predict(model, x, args=a, device="cpu"))
                    else:
                        func, fkw = marginalize, dict(motif="GA", start=1)
                        def one(x, a):
                            yb, ya = marginalize(model, x, "GA", start=1, args=a, device="cpu")
                            return [_aslist(yb), _aslist(ya)]
                    f = apply_pairwise if which == "pairwise" else apply_product
                    st, val = call(f, func, model, X, args, batch_size=bs, device="cpu", **fkw)
                    rec.case(1, 1)
                    if st != "ok":
                        rec.violation("apply_%s:raises" % which, case, observed=val)
                        continue
                    # expected by explicit loops
                    if which == "pairwise":
                        idxs = [(j,) * len(conf) for j in range(conf[0])]
                        lead = (B, conf[0])
                    else:
                        idxs = list(itertools.product(*[range(m) for m in conf]))
                        lead = (B,) + tuple(conf)
                    flat = []
                    for i in range(B):
                        for js in idxs:
                            flat.append(one(X[i:i + 1], [args[k][js[k]:js[k] + 1] for k in range(len(conf))]))

                    def gather(sel):
                        t = torch.stack([sel(o)[0] for o in flat])
                        return t.reshape(*lead, *t.shape[1:])
                    if fname == "predict":
                        exp = [gather(lambda o, k=k: o[k]) for k in range(len(flat[0]))]
                        got = _aslist(val)
                        ok = _cmp(rec, "apply_%s:predict" % which, case, got, exp)
                    else:
                        nm = len(flat[0][0])
                        ok = True
                        for side in (0, 1):
                            exp = [gather(lambda o, k=k, side=side: o[side][k]) for k in range(nm)]
                            got = _aslist(val[side])
                            ok = ok and _cmp(rec, "apply_%s:marginalize_%s" % (which, "before" if side == 0 else "after"), case, got, exp)
                    if ok:
                        rec.observe(case)
    rec.sample(dict(w="apply_" + which, L=L, n_out=n_out, arg_set_sizes=list(sizes)))


def run_dls(rec, sh, tier, seed):
    """func=deep_lift_shap with explicit seeds through marginalize / ablate / space."""
    from tangermeme.ablate import ablate
    from tangermeme.deep_lift_shap import deep_lift_shap
    from tangermeme.ersatz import multisubstitute, shuffle, substitute
    from tangermeme.marginalize import marginalize
    from tangermeme.space import space
    L = sh["L"]
    model = LinModel(L, seed)
    for B in (1, 2, 3):
        X = _X(B, L, seed)
        for nargs in (0, 1):
            args = _args(B, nargs) or None

            def dls1(x, a):
                return deep_lift_shap(model, x, args=a, n_shuffles=3, random_state=5, device="cpu")
            kw = dict(args=args) if args else {}
            common = dict(func=deep_lift_shap, n_shuffles=3, device="cpu")
            for bs in (1, 4, 32):
                # marginalize
                case = dict(w="marginalize", func="deep_lift_shap", B=B, L=L, n_args=nargs, batch_size=bs)
                st, val = call(marginalize, model, X, "GA", start=1, random_state=5, batch_size=bs, **common, **kw)
                rec.case(1, int(B >= 2))
                if st != "ok":
                    rec.violation("marginalize:dls_raises", case, observed=val)
                else:
                    Xp = substitute(X, "GA", start=1)
                    eb = torch.cat([dls1(X[i:i + 1], [a[i:i + 1] for a in args] if args else None) for i in range(B)])
                    ea = torch.cat([dls1(Xp[i:i + 1], [a[i:i + 1] for a in args] if args else None) for i in range(B)])
                    for nm, g, e in (("before", val[0], eb), ("after", val[1], ea)):
                        if tuple(g.shape) != tuple(e.shape) or not torch.allclose(g, e, atol=1e-5):
                            rec.violation("marginalize:dls_" + nm, case, expected=e[0], observed=g[0] if g.ndim == e.ndim else list(g.shape))
                # ablate
                case = dict(w="ablate", func="deep_lift_shap", B=B, L=L, n_args=nargs, batch_size=bs)
                st, val = call(ablate, model, X, 1, L - 1, n=2, args=args, random_state=5, batch_size=bs, **common)
                rec.case(1, 1)
                if st != "ok":
                    rec.violation("ablate:dls_raises", case, observed=val)
                else:
                    Xs = shuffle(X, start=1, end=L - 1, n=2, random_state=5)
                    ea = torch.stack([torch.cat([dls1(Xs[i, j:j + 1], [a[i:i + 1] for a in args] if args else None) for j in range(2)]) for i in range(B)])
                    eb = torch.cat([dls1(X[i:i + 1], [a[i:i + 1] for a in args] if args else None) for i in range(B)])
                    for nm, g, e in (("before", val[0], eb), ("after", val[1], ea)):
                        if tuple(g.shape) != tuple(e.shape) or not torch.allclose(g, e, atol=1e-5):
                            rec.violation("ablate:dls_" + nm, case, expected=list(e.shape), observed=list(g.shape))
                # ablate with a seed of its own for the attribution function (0 is a seed like any other): the shuffles use ablate's seed,
                # the function the seed it was given
                if bs == 4:
                    for fs in (0, 7):
                        def dls_fs(x, a):
                            return deep_lift_shap(model, x, args=a, n_shuffles=3, random_state=fs, device="cpu")
                        case = dict(w="ablate", func="deep_lift_shap", B=B, L=L, n_args=nargs, batch_size=bs, ablate_seed=5, func_seed=fs)
                        st, val = call(ablate, model, X, 1, L - 1, n=2, args=args, random_state=5, batch_size=bs, func=deep_lift_shap, device="cpu",
                                       additional_func_kwargs=dict(n_shuffles=3, random_state=fs))
                        rec.case(1, 1)
                        if st != "ok":
                            rec.violation("ablate:dls_raises", case, observed=val)
                            continue
                        Xs = shuffle(X, start=1, end=L - 1, n=2, random_state=5)
                        ea = torch.stack([torch.cat([dls_fs(Xs[i, j:j + 1], [a[i:i + 1] for a in args] if args else None) for j in range(2)]) for i in range(B)])
                        eb = torch.cat([dls_fs(X[i:i + 1], [a[i:i + 1] for a in args] if args else None) for i in range(B)])
                        for nm, g, e in (("before", val[0], eb), ("after", val[1], ea)):
                            if tuple(g.shape) != tuple(e.shape) or not torch.allclose(g, e, atol=1e-5):
                                rec.violation("ablate:dls_" + nm + ":function_seed", case, expected=list(e.shape), observed=list(g.shape))
                # space
                case = dict(w="space", func="deep_lift_shap", B=B, L=L, n_args=nargs, batch_size=bs)
                grid = [[0], [2], [1]]
                st, val = call(space, model, X, ["G", "AT"], grid, start=0, random_state=5, batch_size=bs, **common, **kw)
                rec.case(1, 1)
                if st != "ok":
                    rec.violation("space:dls_raises", case, observed=val)
                else:
                    ea = torch.stack([torch.cat([dls1(multisubstitute(X, ["G", "AT"], g, start=0)[i:i + 1], [a[i:i + 1] for a in args] if args else None)
                                                 for g in grid]) for i in range(B)])
                    if tuple(val[1].shape) != tuple(ea.shape) or not torch.allclose(val[1], ea, atol=1e-5):
                        rec.violation("space:dls_after", case, expected=list(ea.shape), observed=list(val[1].shape))
    # longer sequences, where different seeds really give different attributions: ablate's seed 5, the function's own seed 0 / 7 / 5
    L2 = 24
    model2 = LinModel(L2, seed)
    X2 = _X(3, L2, seed)
    ref5 = deep_lift_shap(model2, X2, n_shuffles=3, random_state=5, device="cpu")
    for fs in (0, 7, 5):
        kwf = dict(n_shuffles=3, random_state=fs, device="cpu")
        case = dict(w="ablate", func="deep_lift_shap", B=3, L=L2, ablate_seed=5, func_seed=fs)
        st, val = call(ablate, model2, X2, 4, 18, n=2, random_state=5, func=deep_lift_shap, device="cpu", additional_func_kwargs=dict(n_shuffles=3, random_state=fs))
        rec.case(1, 1)
        if st != "ok":
            rec.violation("ablate:dls_raises", case, observed=val)
            continue
        eb = deep_lift_shap(model2, X2, **kwf)
        Xs = shuffle(X2, start=4, end=18, n=2, random_state=5)
        ea = deep_lift_shap(model2, Xs.reshape(-1, A, L2), **kwf).reshape(3, 2, A, L2)
        if fs != 5 and torch.allclose(eb, ref5, atol=1e-6):
            rec.note("function seeds %d and 5 give the same attributions here (vacuous probe)" % fs)
        if not torch.allclose(val[0], eb, atol=1e-5) or not torch.allclose(val[1], ea, atol=1e-5):
            rec.violation("ablate:dls_function_seed_not_honoured", case)
    # ablate's seed as a numpy RandomState object (documented), with a func that has a random_state parameter of its own: the shuffles
    # are those of shuffle(X, ..., RandomState(seed)); and funcs whose random_state is keyword-only (functools.partial binding an
    # earlier parameter by keyword, or an explicit `*`): they still receive the stated seed
    import functools
    from tangermeme.predict import predict

    def f_rs(model, X, args=None, random_state=None, **kw):
        return predict(model, X, args=args, **kw)

    for sd in (3, 0, 7, 11):
        st, val = call(ablate, model2, X2, 4, 18, n=3, random_state=numpy.random.RandomState(sd), func=f_rs, device="cpu")
        rec.case(1, 1)
        case = dict(w="ablate", func="custom func with a random_state parameter", ablate_seed="RandomState(%d)" % sd, L=L2)
        if st != "ok":
            rec.violation("ablate:raises:random_state_object", case, observed=val)
        else:
            Xs = shuffle(X2, start=4, end=18, n=3, random_state=numpy.random.RandomState(sd))
            ea = predict(model2, Xs.reshape(-1, A, L2), device="cpu").reshape(3, 3, -1)
            if tuple(val[1].shape) != tuple(ea.shape) or not torch.equal(val[1], ea):
                rec.violation("ablate:after:random_state_object", case)
    for fname, fpart in (("partial(deep_lift_shap, hypothetical=True)", functools.partial(deep_lift_shap, hypothetical=True)),
                         ("keyword-only random_state", None)):
        if fpart is None:
            def fpart(model, X, args=None, *, random_state=None, **kw):
                return deep_lift_shap(model, X, args=args, hypothetical=True, random_state=random_state, **kw)
        st, val = call(ablate, model2, X2, 4, 18, n=2, random_state=5, func=fpart, device="cpu", additional_func_kwargs=dict(n_shuffles=3))
        rec.case(1, 1)
        case = dict(w="ablate", func=fname, ablate_seed=5, L=L2)
        if st != "ok":
            rec.violation("ablate:raises:keyword_only_seed", case, observed=val)
            continue
        kwf = dict(n_shuffles=3, random_state=5, device="cpu", hypothetical=True)
        eb = deep_lift_shap(model2, X2, **kwf)
        Xs = shuffle(X2, start=4, end=18, n=2, random_state=5)
        ea = deep_lift_shap(model2, Xs.reshape(-1, A, L2), **kwf).reshape(3, 2, A, L2)
        if not torch.allclose(val[0], eb, atol=1e-5) or not torch.allclose(val[1], ea, atol=1e-5):
            rec.violation("ablate:dls_function_seed_not_honoured:keyword_only", case)
    rec.sample(dict(w="dls", L=L, wrappers=["marginalize", "ablate", "space"], func="deep_lift_shap(n_shuffles=3, random_state=5)"))


def run_large(rec, sh, tier, seed):
    """Sizes beyond the default batch size / 8-bit counts (40 examples x 20 shuffles, 300 examples), keyword routing through
    additional_func_kwargs, non-contiguous input views, tuples vs lists for args."""
    from tangermeme.ablate import ablate
    from tangermeme.ersatz import multisubstitute, shuffle, substitute
    from tangermeme.marginalize import marginalize
    from tangermeme.space import space
    L, n_out = sh["L"], sh["n_out"]
    model = IdModel(n_out)
    rs = numpy.random.RandomState(3 + seed)
    for B in (40, 300):
        codes = rs.randint(0, A, (B, L))
        X = ohe(codes, A)
        args = [torch.arange(B, dtype=torch.float32)[:, None] + 0.5]

        def exp_rows(Xq):
            return _stack([[o[0] for o in _pred1(model, Xq[i:i + 1], [args[0][i:i + 1]])] for i in range(B)])
        # ablate with the DEFAULT n (20) and default batch size
        if B == 40:
            st, val = call(ablate, model, X, 2, 9, args=tuple(args), random_state=4, device="cpu")
            case = dict(w="ablate", B=B, L=L, n_out=n_out, n="default(20)", batch_size="default(32)")
            rec.case(1, 1)
            if st != "ok":
                rec.violation("ablate:raises", case, observed=val)
            else:
                Xs = shuffle(X, start=2, end=9, n=20, random_state=4)
                ea = _stack([_stack([[o[0] for o in _pred1(model, Xs[i, j:j + 1], [args[0][i:i + 1]])] for j in range(20)]) for i in range(B)])
                _cmp(rec, "ablate:before", case, _aslist(val[0]), exp_rows(X)) and _cmp(rec, "ablate:after", case, _aslist(val[1]), ea)
        # ablate with an index-seeded shuffler (dinucleotide_shuffle seeds example i with random_state + i) on > 256 examples
        if B == 300:
            from tangermeme.ersatz import dinucleotide_shuffle
            # (n=1: with n >= 2 the shuffler refuses sequences whose shuffles all coincide)
            st, val = call(ablate, model, X, 1, L - 1, n=1, shuffle_fn=dinucleotide_shuffle, args=args, random_state=9, device="cpu", batch_size=64)
            case = dict(w="ablate", B=B, L=L, n_out=n_out, shuffle_fn="dinucleotide_shuffle", n=1)
            rec.case(1, 1)
            if st != "ok":
                rec.violation("ablate:raises", case, observed=val)
            else:
                Xs = dinucleotide_shuffle(X, start=1, end=L - 1, n=1, random_state=9)
                ea = _stack([_stack([[o[0] for o in _pred1(model, Xs[i, j:j + 1], [args[0][i:i + 1]])] for j in range(1)]) for i in range(B)])
                _cmp(rec, "ablate:after:index_seeded_shuffler", case, _aslist(val[1]), ea)
        # non-default alphabet order with string motifs (marginalize and space)
        alt = ["T", "G", "C", "A"]
        st, val = call(marginalize, model, X, "GAT", start=2, alphabet=alt, args=args, device="cpu")
        case = dict(w="marginalize", B=B, L=L, n_out=n_out, alphabet="TGCA")
        rec.case(1, 1)
        if st != "ok":
            rec.violation("marginalize:raises:alphabet", case, observed=val)
        else:
            _cmp(rec, "marginalize:after:alphabet", case, _aslist(val[1]), exp_rows(substitute(X, "GAT", start=2, alphabet=alt)))
        grid2 = [[0], [3], [1]]
        st, val = call(space, model, X, ["GA", "TC"], grid2, start=1, alphabet=alt, args=args, device="cpu")
        case = dict(w="space", B=B, L=L, n_out=n_out, alphabet="TGCA")
        rec.case(1, 1)
        if st != "ok":
            rec.violation("space:raises:alphabet", case, observed=val)
        else:
            ea = _stack([_stack([[o[0] for o in _pred1(model, multisubstitute(X[i:i + 1], ["GA", "TC"], g, start=1, alphabet=alt), [args[0][i:i + 1]])] for g in grid2]) for i in range(B)])
            _cmp(rec, "space:after:alphabet", case, _aslist(val[1]), ea)
        # marginalize: keywords routed through additional_func_kwargs and/or **kwargs; list vs tuple args; default batch size
        Xp = substitute(X, "GAT", start=4)
        for ci, (afk, kw) in enumerate(((dict(batch_size=7, device="cpu"), dict(args=args)), (dict(device="cpu", args=tuple(args)), dict(batch_size=33)),
                                        ({}, dict(args=args, device="cpu")), (dict(args=args), dict(device="cpu", batch_size=256)))):
            st, val = call(marginalize, model, X, "GAT", start=4, additional_func_kwargs=dict(afk), **kw)
            case = dict(w="marginalize", B=B, L=L, n_out=n_out, additional_func_kwargs=sorted(afk), kwargs=sorted(kw))
            rec.case(1, 1)
            if st != "ok":
                rec.violation("marginalize:raises:kwargs_routing", case, observed=val)
            else:
                _cmp(rec, "marginalize:before:kwargs_routing", case, _aslist(val[0]), exp_rows(X)) and \
                    _cmp(rec, "marginalize:after:kwargs_routing", case, _aslist(val[1]), exp_rows(Xp))
        # non-contiguous view of the same data
        big = torch.zeros(B, A, 2 * L)
        big[:, :, ::2] = X
        Xv = big[:, :, ::2]
        st, val = call(marginalize, model, Xv, "GAT", start=4, args=args, device="cpu")
        case = dict(w="marginalize", B=B, L=L, n_out=n_out, input="strided view")
        rec.case(1, 1)
        if st != "ok":
            rec.violation("marginalize:raises:strided_input", case, observed=val)
        else:
            _cmp(rec, "marginalize:before:strided_input", case, _aslist(val[0]), exp_rows(X)) and _cmp(rec, "marginalize:after:strided_input", case, _aslist(val[1]), exp_rows(Xp))
        # space with a larger spacing grid (9 rows) and keywords through additional_func_kwargs
        grid = [[g] for g in range(0, 9)]
        st, val = call(space, model, X, ["GA", "T"], grid, start=0, additional_func_kwargs=dict(args=args, device="cpu", batch_size=31))
        case = dict(w="space", B=B, L=L, n_out=n_out, spacing_rows=len(grid))
        rec.case(1, 1)
        if st != "ok":
            rec.violation("space:raises", case, observed=val)
        else:
            ea = _stack([_stack([[o[0] for o in _pred1(model, multisubstitute(X[i:i + 1], ["GA", "T"], g, start=0), [args[0][i:i + 1]])] for g in grid]) for i in range(B)])
            _cmp(rec, "space:after", case, _aslist(val[1]), ea)
    rec.sample(dict(w="large_kwargs", B=[40, 300], L=L, n_out=n_out))


def run_shard(sh, tier, seed):
    rec = Recorder(PID, sh["name"])
    w = sh["w"]
    if w == "large":
        run_large(rec, sh, tier, seed)
        return rec.result()
    if w == "marginalize":
        run_marginalize(rec, sh, tier, seed)
    elif w == "ablate":
        run_ablate(rec, sh, tier, seed)
    elif w == "space":
        run_space(rec, sh, tier, seed)
    elif w == "marginalize_annotations":
        run_marg_annot(rec, sh, tier, seed)
    elif w == "ablate_annotations":
        run_abl_annot(rec, sh, tier, seed)
    elif w == "apply_pairwise":
        run_apply(rec, sh, tier, seed, "pairwise")
    elif w == "apply_product":
        run_apply(rec, sh, tier, seed, "product")
    else:
        run_dls(rec, sh, tier, seed)
    return rec.result()


def replay(v):
    c = v["case"]
    w = c["w"]
    if c.get("func") == "deep_lift_shap":
        w = "dls"
    r = run_shard(dict(name="replay", w=w, L=c["L"], n_out=c.get("n_out", 1)), "thorough", 0)
    hit = [x for x in r["violations"] if x["sig"] == v["sig"]]
    return (not hit), "re-ran family %s L=%s n_out=%s: %d violations with signature %s%s" % (
        w, c["L"], c.get("n_out"), r["viol_sigs"].get(v["sig"], 0), v["sig"], ("\nfirst: %s" % hit[0]) if hit else "")
