"""C01 - edit primitives apply exactly the requested string edit and nothing else.

Bounded-exhaustive enumeration on the real functions.  The domain is the property's small scope:
every sequence of length <= Lmax over an alphabet of size A (all of them packed into one batch, so
one library call decides A**L cases), every motif of width <= wmax (as string / shared tensor /
per-example tensor with rows forced to differ), every integer start in [-3, L+3] and None, every
(start, end) pair for delete / randomize, every 1..3-motif list x spacing x start for
multisubstitute.  Batch sizes 1, 2, 3 are enumerated separately (the code branches on shape[0]==1).
Oracle: string-level reference on integer code arrays.
"""
import itertools

import numpy
import torch

from mc.common import ALPHA, all_codes, call, decode, ohe, s_of
from mc.report import Recorder

PID = "C01"
LEVEL = "exploration"
REDUCED = {'quick': '3-motif lists use a covering (diagonal) set of motif contents and are skipped for A**L > 64', 'thorough': '3-motif lists use a covering (diagonal) set of motif contents; A in {5,6} limited to L<=4, w<=2'}
RULE = ("cases = (function, alphabet size, sequence, motif(s), motif form, start/end/spacing) enumerated "
        "completely within the bound, no duplicates by construction; a case is non-trivial when the "
        "call has a defined outcome to compare: a valid span (exact expected value) or an invalid span "
        "(must raise); every case also checks that the caller's tensors are bit-identical afterwards")
ASSUMPTIONS = ["alphabet symbols are the first A letters of 'ACGTUX'; one-hot inputs as float32 and int8",
               "any exception type counts as 'rejected'"]


def bound(tier):
    return ("A in {2,4}, L<=4, w<=2 packed (3-motif lists: A**L<=64); B in {1,2,3} paths L<=3 (A=2) / L<=2 (A=4)" if tier == "quick" else
            "A in 2..6, L<=5, w<=3 packed (A>=5: L<=4,w<=2); B in {1,2,3} paths L<=4,w<=2")


def shards(tier, seed):
    out = []
    As = [2, 4] if tier == "quick" else [2, 3, 4, 5, 6]
    for A in As:
        if tier == "quick":
            Lmax, wmax = 4, 2
        else:
            Lmax, wmax = (5, 3) if A <= 4 else (4, 2)
        if A in (3, 4):
            out.append(dict(name="alphabet_history/A%d" % A, fn="alphabet_history", A=A, Lmax=Lmax, wmax=wmax, weight=500))
            out.append(dict(name="largebatch/A%d" % A, fn="largebatch", A=A, Lmax=Lmax, wmax=wmax, weight=500))
            out.append(dict(name="argtypes/A%d" % A, fn="argtypes", A=A, Lmax=Lmax, wmax=wmax, weight=600))
        for fn in ("substitute", "insert", "delete", "randomize", "invalid"):
            out.append(dict(name="%s/A%d" % (fn, A), fn=fn, A=A, Lmax=Lmax, wmax=wmax,
                            weight=A ** Lmax))
        for k in (1, 2, 3):
            for L in range(1, Lmax + 1):
                if tier == "quick" and k == 3 and A ** L > 64:
                    continue
                out.append(dict(name="multisubstitute/A%d/k%d/L%d" % (A, k, L), fn="multisubstitute", A=A,
                                Lmax=Lmax, wmax=wmax, k=k, L=L, weight=A ** L * 10 ** k))
        for B in (1, 2, 3):
            out.append(dict(name="smallbatch/A%d/B%d" % (A, B), fn="smallbatch", A=A, Lmax=Lmax, wmax=wmax,
                            B=B, weight=A ** Lmax * 20, sbL=(2 if A > 3 else 3) if tier == "quick" else (3 if A > 3 else 4)))
    return out


# ---------------------------------------------------------------------------------------------
def _motif_forms(mcodes_rows, A, form, N):
    """Build the motif argument. mcodes_rows: (N, w) per-example codes or (1, w)."""
    if form == "str":
        return s_of(mcodes_rows[0])
    if form == "shared":
        return ohe(mcodes_rows[:1], A, torch.int8)
    return ohe(mcodes_rows, A, torch.float32)


def _expect_sub(codes, mrows, p):
    exp = codes.copy()
    w = mrows.shape[1]
    exp[:, p:p + w] = mrows
    return exp


def _expect_ins(codes, mrows, p):
    mr = numpy.broadcast_to(mrows, (codes.shape[0], mrows.shape[1]))
    return numpy.concatenate([codes[:, :p], mr, codes[:, p:]], axis=1)


def _check_call(rec, fname, f, X, Xcopy, extra_tensors, valid, expected_codes, case, args, kwargs, lenient_refusal=False):
    """One library call decides len(X) cases.  lenient_refusal: a loud error for a valid span is only counted (used for position
    objects of exotic integer types, which the functions document as `int`; a silent wrong answer is still a violation)."""
    N = X.shape[0]
    st, val = call(f, X, *args, **kwargs)
    rec.case(N, N)
    if not torch.equal(X.detach(), Xcopy):
        rec.violation(fname + ":input_modified", case, msg="X changed by the call")
        with torch.no_grad():
            X.detach().copy_(Xcopy)
    for t, tc in extra_tensors:
        if not torch.equal(t, tc):
            rec.violation(fname + ":motif_modified", case, msg="motif tensor changed by the call")
            t.copy_(tc)
    if valid:
        if st != "ok":
            if lenient_refusal:
                rec.count("refused_position_type")
                return
            rec.violation(fname + ":rejects_valid", case, expected="value", observed=val,
                          msg="valid span rejected")
            return
        if not isinstance(val, torch.Tensor) or val.ndim != 3:
            rec.violation(fname + ":bad_type", case, observed=repr(type(val)))
            return
        if tuple(val.shape) != (N, X.shape[1], expected_codes.shape[1]):
            rec.violation(fname + ":wrong_shape", case, expected=list(expected_codes.shape),
                          observed=list(val.shape))
            return
        got, ok = decode(val)
        if not ok:
            rec.violation(fname + ":not_one_hot", case, msg="output is not a one-hot encoding")
            return
        if not numpy.array_equal(got, expected_codes):
            i = int(numpy.nonzero((got != expected_codes).any(axis=1))[0][0])
            c = dict(case)
            c["row"] = i
            rec.violation(fname + ":wrong_value", c, expected=s_of(expected_codes[i]),
                          observed=s_of(got[i]))
            return
        rec.observe(fname, case.get("start"), got.sum())
    else:
        if st == "ok":
            obs = None
            try:
                obs = [s_of(r) for r in decode(val)[0][:2]]
            except Exception:  # noqa: BLE001
                obs = repr(type(val))
            rec.violation(fname + ":accepts_invalid", case, expected="raise", observed=obs,
                          msg="span not wholly inside the sequence was accepted")


def _starts(L):
    return [None] + list(range(-3, L + 4))


def run_substitute_insert(rec, sh, which):
    from tangermeme import ersatz
    f = getattr(ersatz, which)
    A = sh["A"]
    alpha = list(ALPHA[:A])
    for L in range(1, sh["Lmax"] + 1):
        codes = all_codes(A, L)
        N = len(codes)
        for dt in (torch.float32, torch.int8):
            X = ohe(codes, A, dt)
            Xc = X.clone()
            for w in range(1, sh["wmax"] + 1):
                motifs = all_codes(A, w)
                forms = ("str", "shared", "per") if dt == torch.float32 else ("str",)
                for form in forms:
                    # per-example: rotation r gives example i the motif (i + r) mod A**w; over all
                    # r every (sequence, motif) pair occurs.  When A**w does not divide rows the
                    # rows of one call still differ (N >= 2).
                    for mi in range(len(motifs)):
                        if form == "per":
                            rows = motifs[(numpy.arange(N) + mi) % len(motifs)]
                        else:
                            rows = motifs[mi:mi + 1]
                        marg = _motif_forms(rows, A, form, N)
                        extra = [(marg, marg.clone())] if isinstance(marg, torch.Tensor) else []
                        for p in _starts(L):
                            case = dict(fn=which, A=A, L=L, w=w, form=form, motif_index=mi,
                                        motif=s_of(rows[0]), start=p, dtype=str(dt))
                            if which == "substitute":
                                pp = (L // 2 - w // 2) if p is None else p
                                valid = (w <= L) and 0 <= pp <= L - w
                                exp = _expect_sub(codes, rows, pp) if valid else None
                            else:
                                pp = (L // 2) if p is None else p
                                valid = 0 <= pp <= L
                                exp = _expect_ins(codes, rows, pp) if valid else None
                            _check_call(rec, which, f, X, Xc, extra, valid, exp, case, (marg,),
                                        dict(start=p, alphabet=alpha))
                        if mi == 0 and form == "str" and w == 1:
                            rec.sample(dict(fn=which, A=A, L=L, motif=s_of(rows[0]), starts="-3..L+3,None",
                                            n_sequences=N))


def run_delete(rec, sh):
    from tangermeme import ersatz
    A = sh["A"]
    for L in range(1, sh["Lmax"] + 1):
        codes = all_codes(A, L)
        for dt in (torch.float32, torch.int8):
            X = ohe(codes, A, dt)
            Xc = X.clone()
            for a in range(-3, L + 4):
                for b in range(-3, L + 4):
                    valid = 0 <= a < b <= L
                    exp = numpy.concatenate([codes[:, :a], codes[:, b:]], axis=1) if valid else None
                    case = dict(fn="delete", A=A, L=L, start=a, end=b, dtype=str(dt))
                    _check_call(rec, "delete", ersatz.delete, X, Xc, [], valid, exp, case, (a, b), {})
        rec.sample(dict(fn="delete", A=A, L=L, pairs="all (start,end) in [-3,L+3]^2"))


def run_randomize(rec, sh, seed):
    from tangermeme import ersatz
    A = sh["A"]
    for L in range(1, sh["Lmax"] + 1):
        codes = all_codes(A, L)
        N = len(codes)
        X = ohe(codes, A, torch.float32)
        Xc = X.clone()
        # probabilities as float64 tensors (a python list would be cast to float32 by the library and
        # numpy's choice() then rejects sums that are off by 3e-8 - not what this property is about)
        uni = torch.full((1, A), 1.0 / A, dtype=torch.float64)
        uni[0, -1] = 1.0 - float(uni[0, :-1].sum())
        rs = numpy.random.RandomState(1234 + seed)
        w8 = rs.randint(1, 8, size=(N, A)).astype(numpy.float64)
        per = torch.from_numpy(w8 / w8.sum(axis=1, keepdims=True))
        for a in range(-3, L + 4):
            for b in range(-3, L + 4):
                valid = 0 <= a < b <= L
                for n in (1, 2, 3):
                    for probs, pname in ((uni, "uniform"), (per, "per-example")):
                        for s in (0, 1, seed + 2):
                            case = dict(fn="randomize", A=A, L=L, start=a, end=b, n=n, probs=pname, seed=s)
                            pc = probs.clone()
                            st, val = call(ersatz.randomize, X, a, b, probs=probs, n=n, random_state=s)
                            if not torch.equal(probs, pc):
                                rec.violation("randomize:probs_modified", case, msg="the caller's probability tensor changed by the call")
                                probs.copy_(pc)
                            rec.case(N, N)
                            if not torch.equal(X, Xc):
                                rec.violation("randomize:input_modified", case)
                                X.copy_(Xc)
                            if not valid:
                                if st == "ok":
                                    rec.violation("randomize:accepts_invalid", case, expected="raise",
                                                  observed=list(val.shape))
                                continue
                            if st != "ok":
                                rec.violation("randomize:rejects_valid", case, observed=val,
                                              msg="span [start,end) lies inside the sequence but was rejected")
                                continue
                            if tuple(val.shape) != (N, n, A, L):
                                rec.violation("randomize:wrong_shape", case, expected=[N, n, A, L],
                                              observed=list(val.shape))
                                continue
                            got, ok = decode(val)
                            if not ok:
                                rec.violation("randomize:not_one_hot", case)
                                continue
                            flank = numpy.ones(L, dtype=bool)
                            flank[a:b] = False
                            if not (got[:, :, flank] == codes[:, None, :][:, :, flank]).all():
                                rec.violation("randomize:flank_changed", case,
                                              msg="positions outside [start,end) were altered")
                                continue
                            st2, val2 = call(ersatz.randomize, X, a, b, probs=probs, n=n, random_state=s)
                            if st2 != "ok" or not torch.equal(val, val2):
                                rec.violation("randomize:not_deterministic", case)
                            rec.outcome(got[:2].tolist())
                            rec.observe(got.sum())
        rec.sample(dict(fn="randomize", A=A, L=L, spans="all (start,end) in [-3,L+3]^2", n="1..3"))


def run_multisubstitute(rec, sh):
    from tangermeme import ersatz
    A = sh["A"]
    alpha = list(ALPHA[:A])
    wmax = sh["wmax"]
    Lmax = sh["Lmax"]
    for L in ([sh["L"]] if "L" in sh else range(1, Lmax + 1)):
        codes = all_codes(A, L)
        N = len(codes)
        X = ohe(codes, A, torch.float32)
        Xc = X.clone()
        # motif lists: all width tuples of 1..3 motifs; motif content: all motifs for 1-2 motifs when
        # small, otherwise a covering set (each width with each leading character)
        for k in ([sh["k"]] if "k" in sh else (1, 2, 3)):
            for widths in itertools.product(range(1, wmax + 1), repeat=k):
                contents = []
                pools = [all_codes(A, w) for w in widths]
                total = 1
                for p_ in pools:
                    total *= len(p_)
                if total <= (64 if k < 3 else 8):
                    contents = list(itertools.product(*[range(len(p_)) for p_ in pools]))
                else:
                    # diagonal cover: every motif of every slot appears at least once
                    m = max(len(p_) for p_ in pools)
                    contents = [tuple((j * (i + 1) + i) % len(p_) for i, p_ in enumerate(pools)) for j in range(m)]
                for cont in contents:
                    mots = [pools[i][ci] for i, ci in enumerate(cont)]
                    for form in (("str", "shared", "mixed") if k == 1 else ("str", "mixed")):
                        margs = []
                        for i, mc in enumerate(mots):
                            if form == "str" or (form == "mixed" and i % 2 == 0):
                                margs.append(s_of(mc))
                            else:
                                margs.append(ohe(mc[None], A, torch.float32))
                        spac_opts = []
                        if k == 1:
                            spac_opts = [0, []]
                        else:
                            for sp in range(0, L + 1):
                                spac_opts.append(sp)
                            for sp in itertools.product(range(0, min(L, 2) + 1), repeat=k - 1):
                                spac_opts.append(list(sp))
                            spac_opts.append(-1)
                        for sp in spac_opts:
                            spl = [sp] * (k - 1) if isinstance(sp, int) else list(sp)
                            for p in _starts(L):
                                tot = sum(spl) + sum(widths)
                                pp = (L // 2 - tot // 2) if p is None else p
                                pos = []
                                q = pp
                                for i in range(k):
                                    pos.append(q)
                                    q += widths[i] + (spl[i] if i < k - 1 else 0)
                                valid = all(s_ >= 0 for s_ in spl) and all(0 <= pos[i] and pos[i] + widths[i] <= L for i in range(k))
                                exp = None
                                if valid:
                                    exp = codes.copy()
                                    for i in range(k):
                                        exp[:, pos[i]:pos[i] + widths[i]] = mots[i]
                                case = dict(fn="multisubstitute", A=A, L=L, motifs=[s_of(m_) for m_ in mots],
                                            form=form, spacing=sp, start=p)
                                sp_before = list(sp) if isinstance(sp, list) else sp
                                _check_call(rec, "multisubstitute", ersatz.multisubstitute, X, Xc, [],
                                            valid, exp, case, (margs, sp), dict(start=p, alphabet=alpha))
                                if sp != sp_before:
                                    # the SAME list object is reused for all starts: a call that edits it breaks the later calls too
                                    rec.violation("multisubstitute:spacing_argument_modified", case, expected=sp_before, observed=list(sp))
                                    sp[:] = sp_before
        rec.sample(dict(fn="multisubstitute", A=A, L=L, motif_lists="1..3 motifs, widths<=%d" % wmax,
                        spacing="0..L int, lists, -1", starts="-3..L+3,None"))


def run_smallbatch(rec, sh):
    """batch sizes 1, 2, 3 (the code branches on motif.shape[0] == 1 / X.shape[0])."""
    from tangermeme import ersatz
    A = sh["A"]
    alpha = list(ALPHA[:A])
    Lmax = min(sh["Lmax"], sh.get("sbL", 3 if A > 3 else 4))
    for L in range(1, Lmax + 1):
        allc = all_codes(A, L)
        for B in ([sh["B"]] if "B" in sh else (1, 2, 3)):
            # every B-row batch made of consecutive (wrapping) sequences starting anywhere
            for i0 in range(len(allc)):
                codes = allc[(i0 + numpy.arange(B) * 5) % len(allc)]
                X = ohe(codes, A, torch.float32)
                # input variety: dtype (float16 / float64 / uint8), a non-contiguous view of a larger buffer, a leaf that requires grad
                variant = ("float32", "float16", "float64", "uint8", "strided", "requires_grad")[(i0 + L + B) % 6]
                if variant in ("float16", "float64", "uint8"):
                    X = X.to(getattr(torch, variant))
                elif variant == "strided":
                    big = torch.zeros(B, A, 2 * L)
                    big[:, :, ::2] = X
                    X = big[:, :, ::2]
                elif variant == "requires_grad":
                    X = X.clone().requires_grad_(True)
                Xc = X.detach().clone()
                for w in range(1, sh["wmax"] + 1):
                    motifs = all_codes(A, w)
                    for mi in range(len(motifs)):
                        for form in ("str", "shared", "per"):
                            rows = motifs[(numpy.arange(B) + mi) % len(motifs)] if form == "per" else motifs[mi:mi + 1]
                            marg = _motif_forms(rows, A, form, B)
                            extra = [(marg, marg.clone())] if isinstance(marg, torch.Tensor) else []
                            for p in _starts(L):
                                case = dict(fn="substitute", A=A, L=L, B=B, seqs=[s_of(c) for c in codes], w=w,
                                            form=form, motif=[s_of(r) for r in rows], start=p)
                                pp = (L // 2 - w // 2) if p is None else p
                                valid = (w <= L) and 0 <= pp <= L - w
                                _check_call(rec, "substitute", ersatz.substitute, X, Xc, extra, valid,
                                            _expect_sub(codes, rows, pp) if valid else None, case, (marg,),
                                            dict(start=p, alphabet=alpha))
                                case = dict(case, fn="insert")
                                pp = (L // 2) if p is None else p
                                valid = 0 <= pp <= L
                                _check_call(rec, "insert", ersatz.insert, X, Xc, extra, valid,
                                            _expect_ins(codes, rows, pp) if valid else None, case, (marg,),
                                            dict(start=p, alphabet=alpha))
                for a in range(-1, L + 2):
                    for b in range(-1, L + 2):
                        valid = 0 <= a < b <= L
                        _check_call(rec, "delete", ersatz.delete, X, Xc, [], valid,
                                    numpy.concatenate([codes[:, :a], codes[:, b:]], axis=1) if valid else None,
                                    dict(fn="delete", A=A, L=L, B=B, seqs=[s_of(c) for c in codes], start=a, end=b),
                                    (a, b), {})
    rec.sample(dict(fn="smallbatch", A=A, B="1,2,3", L="1..%d" % Lmax))


def run_largebatch(rec, sh):
    """Batches beyond 256 examples (Python's small-int cache, 8-bit counters) with shared and per-example motifs."""
    from tangermeme import ersatz
    A = sh["A"]
    alpha = list(ALPHA[:A])
    rs = numpy.random.RandomState(5)
    for B in (255, 256, 257, 300, 1000):
        L = 6
        codes = rs.randint(0, A, (B, L))
        X = ohe(codes, A, torch.float32)
        Xc = X.clone()
        for w in (1, 3):
            per = rs.randint(0, A, (B, w))
            for form, rows in (("per", per), ("shared", per[:1]), ("str", per[:1])):
                marg = _motif_forms(rows, A, form, B)
                extra = [(marg, marg.clone())] if isinstance(marg, torch.Tensor) else []
                for p in (0, 2, L - w, L):
                    case = dict(fn="substitute", A=A, L=L, B=B, w=w, form=form, start=p, batch="rs(5)")
                    valid = 0 <= p <= L - w
                    _check_call(rec, "substitute", ersatz.substitute, X, Xc, extra, valid, _expect_sub(codes, rows, p) if valid else None, case, (marg,),
                                dict(start=p, alphabet=alpha))
                    _check_call(rec, "insert", ersatz.insert, X, Xc, extra, True, _expect_ins(codes, rows, p), dict(case, fn="insert"), (marg,),
                                dict(start=p, alphabet=alpha))
        _check_call(rec, "delete", ersatz.delete, X, Xc, [], True, numpy.concatenate([codes[:, :1], codes[:, 4:]], axis=1),
                    dict(fn="delete", A=A, L=L, B=B, start=1, end=4), (1, 4), {})
    # motif batches: all-tensor motif lists that mix a shared motif (batch 1) with one motif per example, adjacent (spacing 0) and spaced;
    # a motif batch that is neither 1 nor the number of sequences (e.g. 2 motifs for 4 or 6 sequences) is rejected, never tiled
    for B in (4, 6):
        L = 7
        codes = rs.randint(0, A, (B, L))
        X = ohe(codes, A, torch.float32)
        Xc = X.clone()
        sh_rows = rs.randint(0, A, (1, 2))
        per_rows = rs.randint(0, A, (B, 1))
        per2_rows = rs.randint(0, A, (B, 2))
        t_sh = _motif_forms(sh_rows, A, "shared", B)
        t_per = _motif_forms(per_rows, A, "per", B)
        t_per2 = _motif_forms(per2_rows, A, "per", B)
        for sp in (0, [0], 1, [2]):
            g = sp if isinstance(sp, int) else sp[0]
            for p in (0, 1, L - 3 - g):
                for order, mots, rows in (("shared,per", [t_sh, t_per], [sh_rows, per_rows]), ("per,shared", [t_per2, t_sh], [per2_rows, sh_rows])):
                    w0 = rows[0].shape[1]
                    valid = p >= 0 and p + w0 + g + rows[1].shape[1] <= L
                    exp = _expect_sub(_expect_sub(codes, rows[0], p), rows[1], p + w0 + g) if valid else None
                    case = dict(fn="multisubstitute", A=A, L=L, B=B, motifs="all tensors: " + order, spacing=sp, start=p)
                    _check_call(rec, "multisubstitute", ersatz.multisubstitute, X, Xc, [], valid, exp, case, (mots, sp), dict(start=p, alphabet=alpha))
        for k in (2, 3, B - 1, B + 1):
            if k in (1, B):
                continue
            bad = ohe(rs.randint(0, A, (k, 2)), A, torch.float32)
            for fn_, nm in ((ersatz.substitute, "substitute"), (ersatz.insert, "insert")):
                _check_call(rec, nm, fn_, X, Xc, [], False, None, dict(fn=nm, A=A, L=L, B=B, motif_batch=k, start=1), (bad,), dict(start=1, alphabet=alpha))
    rec.sample(dict(fn="largebatch", A=A, B=[255, 256, 257, 300, 1000]))


POS_TYPES = [("int", int), ("numpy.int64", numpy.int64), ("numpy.int32", numpy.int32), ("numpy.int8", numpy.int8),
             ("numpy.uint8", numpy.uint8), ("numpy.uint32", numpy.uint32), ("numpy.uint64", numpy.uint64),
             ("0-d int64 tensor", lambda v: torch.tensor(v, dtype=torch.int64)), ("0-d int32 tensor", lambda v: torch.tensor(v, dtype=torch.int32)),
             ("0-d ndarray", lambda v: numpy.array(v, dtype=numpy.int64))]


# position objects for which a loud refusal of a valid span is tolerated: everything but a Python int.  The pinned code itself refuses some of
# them loudly (randomize with numpy.uint64 or 0-d tensors; substitute with numpy.int8(100) and a 40-column motif, where start + width
# overflows the caller's 8-bit type), and the functions document positions as `int`.  What is never tolerated for any of these types: a
# silently different result, an accepted invalid span, or a modified position object.
LENIENT_TYPES = tuple(t for t, _ in POS_TYPES if t != "int")


def _pos(v, mk):
    """the integer v as the given integer-like type, or None if the type cannot hold it"""
    if mk in (numpy.uint8, numpy.uint32, numpy.uint64) and v < 0:
        return None
    return mk(v)


def _same_pos(p, v):
    try:
        return int(p) == v
    except Exception:  # noqa: BLE001
        return False


def run_argtypes(rec, sh):
    """Positions handed over as every integer-like type a caller may hold (Python / numpy signed and unsigned scalars, 0-d tensors and
    arrays): same result or same rejection as with a Python int, and the position object itself is never modified."""
    from tangermeme import ersatz
    A = sh["A"]
    alpha = list(ALPHA[:A])
    L = 5
    codes = all_codes(A, L)[::7]
    X = ohe(codes, A, torch.float32)
    Xc = X.clone()
    m2 = numpy.array([[1, 0]])
    m1 = numpy.array([[A - 1]])
    for tname, mk in POS_TYPES:
        for a in range(-2, L + 3):
            pa = _pos(a, mk)
            if pa is None:
                continue
            case = dict(A=A, L=L, start=a, position_type=tname)
            # substitute / insert / multisubstitute with a 2-column motif
            marg = _motif_forms(m2, A, "shared", len(codes))
            v_sub = 0 <= a <= L - 2
            _check_call(rec, "substitute", ersatz.substitute, X, Xc, [], v_sub, _expect_sub(codes, m2, a) if v_sub else None,
                        dict(case, fn="substitute"), (marg,), dict(start=pa, alphabet=alpha), lenient_refusal=tname in LENIENT_TYPES)
            _check_call(rec, "insert", ersatz.insert, X, Xc, [], 0 <= a <= L, _expect_ins(codes, m2, a) if 0 <= a <= L else None,
                        dict(case, fn="insert"), (marg,), dict(start=pa, alphabet=alpha), lenient_refusal=tname in LENIENT_TYPES)
            v_ms = 0 <= a and a + 2 + 1 + 1 <= L
            exp = None
            if v_ms:
                exp = _expect_sub(_expect_sub(codes, m2, a), m1, a + 3)
            _check_call(rec, "multisubstitute", ersatz.multisubstitute, X, Xc, [], v_ms, exp, dict(case, fn="multisubstitute", spacing=1),
                        ([s_of(m2[0]), s_of(m1[0])], 1), dict(start=pa, alphabet=alpha), lenient_refusal=tname in LENIENT_TYPES)
            if not _same_pos(pa, a):
                rec.violation("multisubstitute:position_argument_modified", dict(case, fn="substitute/insert/multisubstitute"),
                              expected=a, observed=str(pa), msg="the caller's position object changed by the call")
                pa = _pos(a, mk)
            for b in range(-2, L + 3):
                pb = _pos(b, mk)
                if pb is None:
                    continue
                valid = 0 <= a < b <= L
                c2 = dict(case, fn="delete", end=b)
                _check_call(rec, "delete", ersatz.delete, X, Xc, [], valid, numpy.concatenate([codes[:, :a], codes[:, b:]], axis=1) if valid else None,
                            c2, (pa, pb), {}, lenient_refusal=tname in LENIENT_TYPES)
                uni = torch.full((1, A), 1.0 / A, dtype=torch.float64)
                uni[0, -1] = 1.0 - float(uni[0, :-1].sum())
                st, val = call(ersatz.randomize, X, pa, pb, probs=uni, n=2, random_state=3)
                rec.case(1, 1)
                if st != "ok" and valid and tname in LENIENT_TYPES:
                    rec.count("refused_position_type")
                elif (st == "ok") != valid:
                    rec.violation("randomize:accepts_invalid" if st == "ok" else "randomize:rejects_valid", dict(c2, fn="randomize"),
                                  expected="value" if valid else "raise", observed=val if st != "ok" else list(val.shape))
                elif valid:
                    g, ok = decode(val)
                    if not ok or not (g[:, :, :a] == codes[:, None, :a]).all() or not (g[:, :, b:] == codes[:, None, b:]).all():
                        rec.violation("randomize:flank_changed", dict(c2, fn="randomize"))
                if not _same_pos(pa, a) or not _same_pos(pb, b):
                    rec.violation("delete:position_argument_modified", c2, expected=[a, b], observed=[str(pa), str(pb)])
                    pa = _pos(a, mk)
                if not torch.equal(X, Xc):
                    rec.violation("randomize:input_modified", dict(c2, fn="randomize"))
                    X = Xc.clone()
    # positions near the limit of narrow integer types: start 100 with a 40-column motif in a 200-column sequence (100 + 40 > 127)
    Lb, wb, pb = 200, 40, 100
    cb = (numpy.arange(Lb)[None, :] * (numpy.arange(3)[:, None] + 2) + numpy.arange(3)[:, None]) % A
    Xb = ohe(cb, A, torch.float32)
    Xbc = Xb.clone()
    mb = (numpy.arange(wb)[None, :] * 3 + 1) % A
    for tname, mk in POS_TYPES:
        for p0 in (pb, 127, 126, 88):
            pa = _pos(p0, mk)
            if pa is None:
                continue
            marg = _motif_forms(mb, A, "shared", 3)
            case = dict(A=A, L=Lb, start=p0, position_type=tname, motif_width=wb)
            _check_call(rec, "insert", ersatz.insert, Xb, Xbc, [], True, _expect_ins(cb, mb, p0), dict(case, fn="insert"), (marg,),
                        dict(start=pa, alphabet=alpha), lenient_refusal=tname in LENIENT_TYPES)
            _check_call(rec, "substitute", ersatz.substitute, Xb, Xbc, [], True, _expect_sub(cb, mb, p0), dict(case, fn="substitute"), (marg,),
                        dict(start=pa, alphabet=alpha), lenient_refusal=tname in LENIENT_TYPES)
            pe = _pos(p0 + wb, mk) if p0 + wb <= 127 or "int8" not in tname else None
            if pe is not None:
                _check_call(rec, "delete", ersatz.delete, Xb, Xbc, [], True, numpy.concatenate([cb[:, :p0], cb[:, p0 + wb:]], axis=1),
                            dict(case, fn="delete", end=p0 + wb), (pa, pe), {}, lenient_refusal=tname in LENIENT_TYPES)
            if not _same_pos(pa, p0):
                rec.violation("insert:position_argument_modified", case, expected=p0, observed=str(pa))
    rec.sample(dict(fn="argtypes", A=A, L=L, position_types=[t for t, _ in POS_TYPES], starts="[-2, L+2]", spans="all (start,end) in [-2,L+2]^2"))


def run_invalid(rec, sh):
    """Inputs that are not one-hot / wrong alphabet: must be rejected by every primitive."""
    from tangermeme import ersatz
    A = sh["A"]
    alpha = list(ALPHA[:A])
    L = 4
    codes = all_codes(A, L)[: 6]
    good = ohe(codes, A, torch.float32)
    bads = {}
    x = good.clone(); x[1, :, 2] = 0; bads["N_column"] = x
    x = good.clone(); x[0, :, 1] = 0; x[0, 0, 1] = 1; x[0, 1, 1] = 1; bads["two_hot"] = x
    x = good.clone(); x[2, codes[2, 0], 0] = 2; bads["value_2"] = x
    x = good.clone(); x[2, codes[2, 0], 0] = 0.5; x[2, (codes[2, 0] + 1) % A, 0] = 0.5; bads["fractional"] = x
    mgood = ohe(numpy.array([[0, 1]]), A, torch.float32)
    calls = {
        "substitute": lambda X: ersatz.substitute(X, mgood, start=1),
        "insert": lambda X: ersatz.insert(X, mgood, start=1),
        "delete": lambda X: ersatz.delete(X, 1, 2),
        "randomize": lambda X: ersatz.randomize(X, 1, 3, probs=torch.full((1, A), 1.0 / A, dtype=torch.float64), random_state=0),
        "multisubstitute": lambda X: ersatz.multisubstitute(X, [mgood, mgood], 0, start=0),
    }
    for bname, Xb in bads.items():
        for fname, f in calls.items():
            Xbc = Xb.clone()
            st, val = call(f, Xb)
            rec.case(1, 1)
            if st == "ok":
                rec.violation(fname + ":accepts_non_one_hot", dict(fn=fname, A=A, bad=bname), expected="raise")
            if not torch.equal(Xb, Xbc):
                rec.violation(fname + ":input_modified", dict(fn=fname, A=A, bad=bname))
    # bad motifs
    mb = {}
    m = mgood.clone(); m[0, :, 0] = 0; mb["motif_N_column"] = m
    m = mgood.clone(); m[0, :, 0] = 1; mb["motif_all_ones"] = m
    mb["motif_wrong_alphabet"] = ohe(numpy.array([[0, 1]]), A + 1, torch.float32)
    mb["motif_str_outside_alphabet"] = "A" + ALPHA[A]
    mb["motif_str_N"] = "AN"
    mb["motif_wrong_batch"] = ohe(numpy.array([[0, 1]] * 4), A, torch.float32)  # 4 rows vs 6 examples
    for mname, m in mb.items():
        for fname, f in (("substitute", lambda m_: ersatz.substitute(good, m_, start=1, alphabet=alpha)),
                         ("insert", lambda m_: ersatz.insert(good, m_, start=1, alphabet=alpha)),
                         ("multisubstitute", lambda m_: ersatz.multisubstitute(good, [m_], 0, start=1, alphabet=alpha))):
            gc = good.clone()
            st, val = call(f, m)
            rec.case(1, 1)
            if st == "ok":
                rec.violation(fname + ":accepts_bad_motif", dict(fn=fname, A=A, bad=mname), expected="raise",
                              observed=list(val.shape))
            if not torch.equal(good, gc):
                rec.violation(fname + ":input_modified", dict(fn=fname, A=A, bad=mname))
    rec.sample(dict(fn="invalid", A=A, bad_X=list(bads), bad_motifs=list(mb)))


def run_alphabet_history(rec, sh):
    """Call histories within one process: the same motif STRING used under differently ordered alphabets (and as a tensor) in
    alternation - the result must always follow the alphabet of the current call."""
    from tangermeme import ersatz
    A = sh["A"]
    letters = ALPHA[:A]
    perms = list(itertools.permutations(range(A)))
    if A == 4:
        perms = [perms[i] for i in (0, 23, 5, 9, 14, 18)]
    L = 4
    codes = all_codes(A, L)
    X = ohe(codes, A)
    Xc = X.clone()
    for w in (1, 2):
        for mcodes in all_codes(A, w):
            for p1 in perms:
                for p2 in perms:
                    if p1 == p2:
                        continue
                    for fname in ("substitute", "insert", "multisubstitute"):
                        for perm in (p1, p2, p1):
                            # alphabet order `perm`: index k of the one-hot rows means letter letters[perm[k]]
                            alpha = [letters[perm[k]] for k in range(A)]
                            ms = "".join(alpha[c] for c in mcodes)          # the string that denotes codes `mcodes` under this alphabet
                            ms_fixed = "".join(letters[c] for c in mcodes)     # the SAME string in every call -> different codes per alphabet
                            want = numpy.array([[alpha.index(ch) for ch in ms_fixed]])
                            case = dict(fn=fname, A=A, L=L, motif=ms_fixed, alphabet="".join(alpha), start=1, history=["".join(letters[q] for q in pp) for pp in (p1, p2, p1)])
                            if fname == "substitute":
                                _check_call(rec, "substitute", ersatz.substitute, X, Xc, [], True, _expect_sub(codes, want, 1), case, (ms_fixed,),
                                            dict(start=1, alphabet=alpha))
                            elif fname == "insert":
                                _check_call(rec, "insert", ersatz.insert, X, Xc, [], True, _expect_ins(codes, want, 1), case, (ms_fixed,),
                                            dict(start=1, alphabet=alpha))
                            else:
                                _check_call(rec, "multisubstitute", ersatz.multisubstitute, X, Xc, [], True, _expect_sub(codes, want, 1), case,
                                            ([ms_fixed], 0), dict(start=1, alphabet=alpha))
    # alphabets of DIFFERENT sizes sharing a prefix, alternated on the same motif strings (a cache keyed on the motif alone would mix them)
    for A2 in (A - 1, A + 1):
        if A2 < 2 or A2 > 6:
            continue
        small = min(A, A2)
        for w in (1, 2):
            for mcodes in all_codes(small, w):
                ms = "".join(letters[c] if c < len(letters) else ALPHA[c] for c in mcodes)
                for (Ax, order) in ((A, 0), (A2, 1), (A, 2), (A2, 3)):
                    alpha = list(ALPHA[:Ax])
                    cx = all_codes(Ax, 3)
                    Xx = ohe(cx, Ax)
                    case = dict(fn="substitute", A=Ax, L=3, motif=ms, alphabet="".join(alpha), start=0, history="alternating alphabet sizes %d/%d" % (A, A2))
                    want = numpy.array([[alpha.index(ch) for ch in ms]])
                    _check_call(rec, "substitute", ersatz.substitute, Xx, Xx.clone(), [], True, _expect_sub(cx, want, 0), case, (ms,), dict(start=0, alphabet=alpha))
                    _check_call(rec, "insert", ersatz.insert, Xx, Xx.clone(), [], True, _expect_ins(cx, want, 3), dict(case, fn="insert", start=3), (ms,),
                                dict(start=3, alphabet=alpha))
    rec.sample(dict(fn="alphabet_history", A=A, alphabets=["".join(letters[q] for q in pp) for pp in perms], motifs="all strings of width 1-2"))


def run_shard(sh, tier, seed):
    rec = Recorder(PID, sh["name"])
    fn = sh["fn"]
    if fn == "alphabet_history":
        run_alphabet_history(rec, sh)
        return rec.result()
    if fn == "largebatch":
        run_largebatch(rec, sh)
        return rec.result()
    if fn == "argtypes":
        run_argtypes(rec, sh)
        return rec.result()
    if fn in ("substitute", "insert"):
        run_substitute_insert(rec, sh, fn)
    elif fn == "delete":
        run_delete(rec, sh)
    elif fn == "randomize":
        run_randomize(rec, sh, seed)
    elif fn == "multisubstitute":
        run_multisubstitute(rec, sh)
    elif fn == "smallbatch":
        run_smallbatch(rec, sh)
    elif fn == "invalid":
        run_invalid(rec, sh)
    return rec.result()


def replay(v):
    """Re-execute one recorded case with no explorer in the loop."""
    from tangermeme import ersatz
    from mc.common import codes_of
    c = v["case"]
    A = c["A"]
    alpha = list(ALPHA[:A])
    rec = Recorder(PID, "replay")
    fn = c["fn"]
    if fn in ("substitute", "insert") and "seqs" not in c:
        sh = dict(A=A, Lmax=c["L"], wmax=c["w"])
        # re-run the whole (tiny) packed family for this L and w, then filter
        run_substitute_insert(rec, sh, fn)
    elif fn == "delete":
        run_delete(rec, dict(A=A, Lmax=c["L"]))
    elif fn == "randomize":
        run_randomize(rec, dict(A=A, Lmax=c["L"]), c.get("seed", 0))
    elif fn == "multisubstitute":
        run_multisubstitute(rec, dict(A=A, Lmax=c["L"], wmax=max(len(m) for m in c["motifs"])))
    else:
        run_smallbatch(rec, dict(A=A, Lmax=c.get("L", 3), wmax=c.get("w", 2)))
        run_invalid(rec, dict(A=A))
    hit = [x for x in rec.violations if x["sig"] == v["sig"]]
    txt = "replayed family of case %s: %d violations with signature %s" % (c, rec.viol_sigs.get(v["sig"], 0), v["sig"])
    if hit:
        txt += "\nfirst: %s" % hit[0]
    return (not hit), txt
