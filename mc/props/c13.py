"""C13 - TOMTOM results are independent of threads, co-processed queries and their order.

Model checking.  The model run is the REAL body of tomtom._tomtom (dispatcher.py_func) executed under re-bound globals:
  prange(n)            -> iterations in an explorer-chosen order,
  numba.get_thread_id  -> the explorer-chosen virtual thread of the running iteration,
  numba.get_num_threads-> the virtual thread count,
  numpy.empty          -> arrays filled with a poison value (0, +1e300, -1e300, NaN; int8: 77)
while the compiled inner kernels are called unchanged (tomtom() itself is run with `_tomtom` bound to this model run, so the
real preprocessing - hashing, reverse complements - is used).  After EVERY iteration all scratch arrays are diffed: an
iteration on virtual thread p may change only row p of each scratch array and row i of `results` (measured footprint
disjointness => iterations on different threads commute => exploring per-thread histories covers all interleavings at
iteration granularity).  Explored: every query list of length <= 3 (with repetition) from a pool of mixed lengths, every
assignment of iterations to 1-3 virtual threads and every order, every poison.  Oracle: the result row of a query is
bit-identical to the row obtained when that query is processed alone on fresh scratch.
Validation against the implementation: every explored query list is run through the compiled tomtom() with n_jobs in
{1,2,3,4,8,16} x chunk sizes, twice, and must equal the model run bit for bit; annotate_seqlets is checked on all ordered
subsets of a seqlet list (nested seqlets, trailing-A extensions, N columns).
"""
import itertools

import numpy
import torch

from mc.common import call
from mc.report import Recorder
from mc.shims import rebind

PID = "C13"
LEVEL = "model_checking"
NUMBA_THREADS = 16
DETERMINISM_IS_PROPERTY = True
REDUCED = {'quick': 'query lists of length 3: one in ten, with every third schedule and two of four poisons; annotate: a quarter of the ordered triples; n_nearest: two of the four (strand mode, hashing) combinations per target set', 'thorough': 'annotate_seqlets: one ninth of the ordered 4-subsets'}
RULE = ("states = (query list, poison, thread assignment, order) nodes reached = model executions of the real _tomtom body; "
        "transitions = prange iterations executed under the controlled scheduler (each with a measured scratch footprint); "
        "traces validated = compiled tomtom()/annotate_seqlets runs compared bit for bit with the model run; non-trivial = "
        "executions in which a virtual thread processes >= 2 queries (scratch reuse) or >= 2 threads are used")
ASSUMPTIONS = ["interleavings inside one prange iteration (instruction level, between native threads) are not explored; iteration-level "
               "commutation is established by the measured footprint disjointness", "the compiled kernels called from the model run are the implementation's own"]

PAL = [[1, 0, 0, 0], [.5, .5, 0, 0], [.25, .25, .25, .25], [0, 0, .5, .5], [.7, .1, .1, .1], [.1, .2, .3, .4], [0, .25, 0, .75]]
QUERY_POOL = [[0], [2], [1, 0], [4, 0, 3], [0, 1, 5, 2, 3]]
TARGET_SETS = [
    # more than half of the pooled columns are column 6, the farthest one from query column 0: the column median equals the
    # minimum and the best integerised score of query [0] against target [6] is 0 (the boundary of the score range)
    [[6], [6, 6], [6, 6, 6], [1], [0, 3]],
    [[1], [0, 3], [5, 1, 0], [0, 1, 2, 3, 4, 5], [6, 6], [6]],
    [[4], [3, 0], [2, 5, 6], [6, 0, 4, 1, 3, 0], [0]],
]
POISONS = [0.0, 1e300, -1e300, float("nan")]


def bound(tier):
    return ("query lists of length <=2 (all) and 3 (reduced) from a 5-query pool (lengths 1,1,2,3,5), 1-3 virtual threads, all assignments x orders, 4 poisons, rc on/off, n_nearest; compiled n_jobs {1,2,3,4,8,16}"
            if tier == "quick" else
            "all query lists of length <=3 from a 5-query pool, 2 target sets, 1-3 virtual threads, all assignments x orders, 4 poisons, rc on/off, hashing on/off, n_nearest 1..n_targets; compiled n_jobs {1,2,3,4,8,16} x chunk sizes {0,1}")


def shards(tier, seed):
    out = []
    for ts in range(len(TARGET_SETS) if tier != "quick" else 2):
        for rc in (0, 1):
            # (every process compiles the non-cached TOMTOM kernels once, ~20 s: keep the number of shards <= 16)
            groups = [(0, 1), (2, 3), (4,)] if tier == "quick" else [(q,) for q in range(len(QUERY_POOL))]
            for grp in groups:
                out.append(dict(name="model/t%d/rc%d/q%s" % (ts, rc, "".join(map(str, grp))), kind="model", ts=ts, rc=rc, firsts=list(grp),
                                numba_threads=16, weight=1000 * len(grp)))
    out.append(dict(name="long_queries", kind="long", numba_threads=16, weight=900))
    out.append(dict(name="nearest", kind="nearest", numba_threads=4, weight=300))
    out.append(dict(name="annotate", kind="annotate", numba_threads=4, weight=500))
    return out


def motif(cols):
    return numpy.array([PAL[c] for c in cols], dtype=numpy.float64).T.copy()


# ------------------------------------------------------------------------------------------------ model run
class NPShim:
    def __init__(self, poison):
        self.poison = poison
        self.allocs = []

    def __getattr__(self, k):
        return getattr(numpy, k)

    def empty(self, shape, dtype='float64'):
        a = numpy.empty(shape, dtype=dtype)
        if numpy.issubdtype(a.dtype, numpy.floating):
            a[...] = self.poison
        else:
            a[...] = 77
        self.allocs.append(a)
        return a


class Sched:
    """numba replacement: virtual thread ids + footprint measurement between iterations."""
    def __init__(self, nthreads, order, assign, npshim):
        self.n, self.order, self.assign, self.np = nthreads, order, assign, npshim
        self.cur = None
        self.footprint_violations = []
        self.iterations = 0

    def get_num_threads(self):
        return self.n

    def get_thread_id(self):
        return self.assign[self.cur]

    def prange(self, n):
        assert sorted(self.order) == list(range(n)), "schedule does not match the number of iterations"
        for i in self.order:
            self.cur = i
            before = [a.copy() for a in self.np.allocs]
            yield i
            self.iterations += 1
            pid = self.assign[i]
            arrays = self.np.allocs
            for k, (a, b) in enumerate(zip(arrays, before)):
                is_results = (k == len(arrays) - 1)
                own = i if is_results else pid
                for r in range(a.shape[0]):
                    if r != own and a[r].tobytes() != b[r].tobytes():
                        self.footprint_violations.append((i, pid, k, r))


def model_run(TT, Qs, Ts, poison, nthreads, order, assign, rc, n_nearest=None, hashing=None, n_score_bins=100):
    nps = NPShim(poison)
    sched = Sched(nthreads, order, assign, nps)
    g = dict(TT.__dict__)
    g["numpy"] = nps
    g["numba"] = sched
    g["prange"] = sched.prange
    body = rebind(TT._tomtom, g)
    g2 = dict(TT.__dict__)
    g2["_tomtom"] = body
    tom = rebind(TT.tomtom, g2)
    res = tom(Qs, Ts, n_nearest=n_nearest, n_target_bins=hashing, reverse_complement=bool(rc), n_jobs=-1, n_score_bins=n_score_bins)
    return torch.stack(list(res)).numpy(), sched


def same(a, b):
    return a.shape == b.shape and a.tobytes() == b.tobytes()


def schedules(nq, tier, full):
    """(nthreads, order, assign) - every order x every assignment of iterations to 1..3 virtual threads (canonical thread
    labels: first use order), or a reduced covering set."""
    out = []
    for order in itertools.permutations(range(nq)):
        for assign in itertools.product(range(min(3, nq)), repeat=nq):
            # canonical labelling: thread ids appear in increasing order of first use along `order`
            seen = []
            for i in order:
                if assign[i] not in seen:
                    seen.append(assign[i])
            if seen != sorted(seen) or seen != list(range(len(seen))):
                continue
            nthreads = max(assign) + 1
            out.append((nthreads, list(order), list(assign)))
            if nthreads < 3:
                out.append((3, list(order), list(assign)))       # spare virtual threads whose scratch stays poisoned
    if not full:
        out = out[::3]
    return out


def run_model(rec, sh, tier, seed):
    import numba
    from tangermeme.tools import tomtom as TT
    Ts = [motif(t) for t in TARGET_SETS[sh["ts"]]]
    rc = sh["rc"]
    pool = [motif(q) for q in QUERY_POOL]
    # baseline: each query alone, fresh scratch, every poison -> must be poison independent
    alone = {}
    for qi, Q in enumerate(pool):
        rows = []
        for poison in POISONS:
            r, sc = model_run(TT, [Q], Ts, poison, 1, [0], [0], rc)
            rows.append(r[:, 0])
            rec.count("states")
            rec.count("transitions", sc.iterations)
        if any(not same(rows[0], r) for r in rows[1:]):
            rec.violation("tomtom:result_depends_on_uninitialised_memory", dict(fn="tomtom(model)", query=QUERY_POOL[qi], targets=TARGET_SETS[sh["ts"]],
                          reverse_complement=rc), expected=rows[0], observed=[r for r in rows[1:] if not same(rows[0], r)][0],
                          msg="a single query on fresh scratch gives different results for different fill values of numpy.empty")
        alone[qi] = rows[0]
    lists = []
    for first in sh["firsts"]:
        ll = [(first,)] + [(first, b) for b in range(5)] + [(first, b, c) for b in range(5) for c in range(5)]
        if tier == "quick":
            ll = [l for l in ll if len(l) < 3 or (l[1] + 2 * l[2] + first) % 10 == 0]
        lists += ll
    for ql in lists:
        Qs = [pool[q] for q in ql]
        nq = len(ql)
        full = tier != "quick" or nq <= 2
        base = None
        for (nthreads, order, assign) in schedules(nq, tier, full):
            for pi, poison in enumerate(POISONS):
                if not full and pi not in (1, 3):
                    continue
                case = dict(fn="tomtom(model)", queries=[QUERY_POOL[q] for q in ql], targets=TARGET_SETS[sh["ts"]], reverse_complement=rc,
                            virtual_threads=nthreads, order=order, assign=assign, poison=repr(poison))
                st, val = call(model_run, TT, Qs, Ts, poison, nthreads, order, assign, rc)
                reuse = len(set(assign)) < nq or nthreads > 1
                rec.case(1, int(reuse))
                rec.count("states")
                if st != "ok":
                    rec.violation("tomtom:model_run_raises", case, observed=val)
                    continue
                r, sc = val
                rec.count("transitions", sc.iterations)
                if sc.footprint_violations:
                    i, pid, k, row = sc.footprint_violations[0]
                    rec.violation("tomtom:iteration_writes_outside_its_rows", dict(case, iteration=i, thread=pid, array_index=k, row=row),
                                  msg="an iteration changed a scratch row of another thread / a result row of another query")
                    continue
                bad = False
                for pos, q in enumerate(ql):
                    if not same(r[:, pos], alone[q]):
                        prev = [ql[j] for j in order[:order.index(pos)] if assign[j] == assign[pos]]
                        rec.violation("tomtom:result_depends_on_history", dict(case, query_position=pos, earlier_on_same_thread=[QUERY_POOL[x] for x in prev]),
                                      expected=alone[q], observed=r[:, pos],
                                      msg="result row differs from the row obtained when the query is processed alone")
                        bad = True
                        break
                if bad:
                    continue
                if base is None:
                    base = r
                rec.outcome((ql, r.tobytes()[:64]))
        if base is None:
            continue
        # ---- validation against the implementation: compiled tomtom() at every real thread count
        for nj in (1, 2, 3, 4, 8, 16):
            for chunk in ((0,) if tier == "quick" else (0, 1)):
                for rep in (0, 1):
                    numba.set_parallel_chunksize(chunk)
                    numba.set_num_threads(7)           # the caller's setting must be restored by every call
                    st, res = call(TT.tomtom, Qs, Ts, n_target_bins=None, reverse_complement=bool(rc), n_jobs=nj)
                    numba.set_parallel_chunksize(0)
                    if numba.get_num_threads() != 7:
                        rec.violation("tomtom:num_threads_not_restored", dict(fn="tomtom", n_jobs=nj, expected=7, observed=numba.get_num_threads()))
                    numba.set_num_threads(16)
                    rec.count("traces_validated_against_impl")
                    case = dict(fn="tomtom", queries=[QUERY_POOL[q] for q in ql], targets=TARGET_SETS[sh["ts"]], reverse_complement=rc, n_jobs=nj, chunksize=chunk)
                    if st != "ok":
                        rec.violation("tomtom:raises", case, observed=res)
                        continue
                    got = torch.stack(list(res)).numpy()
                    if not same(got, base):
                        rec.violation("tomtom:compiled_differs_from_model", case, expected=base[:, :, :3], observed=got[:, :, :3],
                                      msg="compiled tomtom() differs bitwise from the serial model run of the same body")
        if numba.get_num_threads() != 16:
            rec.violation("tomtom:num_threads_not_restored", dict(fn="tomtom", expected=16, observed=numba.get_num_threads()))
            numba.set_num_threads(16)
        rec.observe(ql, base.tobytes()[:128])
    rec.sample(dict(kind="model", targets=TARGET_SETS[sh["ts"]], rc=rc, query_pool=QUERY_POOL, first_queries=[QUERY_POOL[q] for q in sh["firsts"]], lists=len(lists),
                    schedules_for_3_queries=len(schedules(3, tier, True)), poisons=[repr(p) for p in POISONS]))


def run_long(rec, tier, seed):
    """Long queries (the scratch size grows with threads x Q_max^3): results must not depend on the thread count or on the longest co-processed query."""
    import numba
    from tangermeme.tools import tomtom as TT

    def pat(L, k):
        return motif([((i * (k + 2) + k + (i // 3)) % len(PAL)) for i in range(L)])
    qlens = [12, 8, 30, 28, 3]
    Qs = [pat(L, k) for k, L in enumerate(qlens)]
    Ts = [pat(L, k + 3) for k, L in enumerate([5, 12, 30, 20, 9, 28])] + [Qs[2], Qs[0]]
    Ts = Ts + [pat(1 + (k * 7) % 11, k) for k in range(300)]          # more than 255 targets, thousands of pooled columns
    alone = [torch.stack(list(TT.tomtom([Q], Ts, n_jobs=1))).numpy()[:, 0] for Q in Qs]
    for rc in (True, False):
        if not rc:
            alone = [torch.stack(list(TT.tomtom([Q], Ts, n_jobs=1, reverse_complement=False))).numpy()[:, 0] for Q in Qs]
        for subset in ([0, 1, 2, 3, 4], [2, 0], [1, 4, 0], [3, 2, 1]):
            for nj in (1, 2, 5, 16):
                st, res = call(TT.tomtom, [Qs[i] for i in subset], Ts, n_jobs=nj, reverse_complement=rc)
                rec.case(1, 1)
                rec.count("traces_validated_against_impl")
                case = dict(fn="tomtom", query_lengths=[qlens[i] for i in subset], n_jobs=nj, reverse_complement=rc, generator="pat(L,k)")
                if st != "ok":
                    rec.violation("tomtom:raises", case, observed=res)
                    continue
                got = torch.stack(list(res)).numpy()
                for pos, i in enumerate(subset):
                    if not same(got[:, pos], alone[i]):
                        rec.violation("tomtom:long_query_result_depends_on_threads_or_co_queries", dict(case, query_position=pos),
                                      expected=alone[i][0][:4], observed=got[:, pos][0][:4])
                        break
                rec.observe(subset, nj, rc)
    # non-default binning parameters: whatever is configured applies to every query of the call, long or short
    for kw in (dict(n_median_bins=50), dict(n_median_bins=7, n_score_bins=50), dict(n_score_bins=200, n_cache=400), dict(n_target_bins=None, n_median_bins=300),
               dict(n_score_bins=2000, n_cache=4000)):       # fine bins: 30 columns x 2000 bins exceeds 2^15
        alone_kw = [torch.stack(list(TT.tomtom([Q], Ts, n_jobs=1, **kw))).numpy()[:, 0] for Q in Qs]
        for subset in ([0, 1, 2, 3, 4], [1, 4, 2], [2, 3]):
            for nj in (1, 5):
                st, res = call(TT.tomtom, [Qs[i] for i in subset], Ts, n_jobs=nj, **kw)
                rec.case(1, 1)
                rec.count("traces_validated_against_impl")
                case = dict(fn="tomtom", query_lengths=[qlens[i] for i in subset], n_jobs=nj, generator="pat(L,k)", kwargs={k: str(v) for k, v in kw.items()})
                if st != "ok":
                    rec.violation("tomtom:raises", case, observed=res)
                    continue
                got = torch.stack(list(res)).numpy()
                for pos, i in enumerate(subset):
                    if not same(got[:, pos], alone_kw[i]):
                        rec.violation("tomtom:long_query_result_depends_on_threads_or_co_queries:nondefault_bins", dict(case, query_position=pos),
                                      expected=alone_kw[i][0][:4], observed=got[:, pos][0][:4])
                        break
    # queries of different storage types in one call (one-hot seqlets as int8, PWMs as float64 / float32, tensors and arrays)
    oh = lambda L, k: numpy.eye(4, dtype=numpy.int8)[[(i * (k + 1) + k) % 4 for i in range(L)]].T.copy()
    cnt = lambda L, k: numpy.round(pat(L, k) * 20).astype(numpy.int64)           # a position-frequency COUNT matrix (integers, not 0/1)
    Qm = [oh(8, 0), pat(12, 1), pat(10, 2).astype(numpy.float32), torch.from_numpy(oh(6, 3)), torch.from_numpy(pat(5, 4)), cnt(7, 5), cnt(4, 6).astype(numpy.int32)]
    names = ["int8 one-hot L8", "float64 pwm L12", "float32 pwm L10", "int8 tensor one-hot L6", "float64 tensor pwm L5", "int64 counts L7", "int32 counts L4"]
    # reference: each query alone, in double precision (float32 input is exactly representable in float64)
    alone_m = [torch.stack(list(TT.tomtom([numpy.asarray(Q).astype(numpy.float64)], Ts, n_jobs=1))).numpy()[:, 0] for Q in Qm]
    for subset in ([0, 1, 2, 3, 4], [1, 0], [2, 3, 1], [4, 3, 2, 1, 0], [0, 3], [3, 1], [2, 1], [5], [5, 6], [6, 5, 0], [5, 1], [3, 6, 5, 2]):
        st, res = call(TT.tomtom, [Qm[i] for i in subset], Ts, n_jobs=3)
        rec.case(1, 1)
        rec.count("traces_validated_against_impl")
        case = dict(fn="tomtom", queries=[names[i] for i in subset], n_jobs=3, generator="mixed storage types")
        if st != "ok":
            rec.violation("tomtom:raises:mixed_storage_types", case, observed=res)
            continue
        got = torch.stack([r.double() for r in res]).numpy()
        for pos, i in enumerate(subset):
            okp = numpy.allclose(got[0, pos], alone_m[i][0], rtol=1e-6, atol=1e-12) and (got[2:, pos] == alone_m[i][2:]).all()
            if not okp:
                rec.violation("tomtom:result_depends_on_co_query_storage_type", dict(case, query_position=pos),
                              expected=alone_m[i][0][:4], observed=got[0, pos][:4])
                break
    # the queries as ONE stacked (n, alphabet, width) array / tensor instead of a list: the same queries, the same rows
    Qeq = [pat(6, k) for k in range(4)]
    ref_rows = [torch.stack(list(TT.tomtom([Q], Ts[:40], n_jobs=1))).numpy()[:, 0] for Q in Qeq]
    for form, Qst in (("numpy (n,4,w)", numpy.stack(Qeq)), ("tensor (n,4,w)", torch.from_numpy(numpy.stack(Qeq))), ("tuple", tuple(Qeq)),
                      ("reversed numpy stack", numpy.stack(Qeq[::-1]))):
        st, res = call(TT.tomtom, Qst, Ts[:40], n_jobs=3)
        rec.case(1, 1)
        rec.count("traces_validated_against_impl")
        case = dict(fn="tomtom", queries="4 queries of width 6", container=form, generator="pat(6,k)")
        if st != "ok":
            if form.startswith("tensor") and "sequence" in str(res):
                rec.count("refused_query_container")      # a stacked torch tensor is refused loudly (TypeError); arrays and tuples work
                continue
            rec.violation("tomtom:raises:query_container", case, observed=res)
            continue
        got = torch.stack(list(res)).numpy()
        order = list(range(4))[::-1] if form.startswith("reversed") else list(range(4))
        for pos, i in enumerate(order):
            if not same(got[:, pos], ref_rows[i]):
                rec.violation("tomtom:result_depends_on_query_container", dict(case, query_position=pos), expected=ref_rows[i][0][:4], observed=got[:, pos][0][:4])
                break
    # three-step histories on ONE thread with equal query lengths: every [a, b, a] over six queries of length 4 (and of length 7)
    for Lq in (4, 7):
        Q6 = [pat(Lq, k + 1) for k in range(6)]
        Tq = Ts[:60]
        for kw in (dict(), dict(reverse_complement=False), dict(n_score_bins=50)):
            al = [torch.stack(list(TT.tomtom([Q], Tq, n_jobs=1, **kw))).numpy()[:, 0] for Q in Q6]
            for a_ in range(6):
                for b_ in range(6):
                    if a_ == b_:
                        continue
                    st, res = call(TT.tomtom, [Q6[a_], Q6[b_], Q6[a_]], Tq, n_jobs=1, **kw)
                    rec.case(1, 1)
                    rec.count("traces_validated_against_impl")
                    case = dict(fn="tomtom", queries="[a, b, a] of length %d" % Lq, a=a_, b=b_, n_jobs=1, kwargs={k: str(v) for k, v in kw.items()}, generator="pat(L,k)")
                    if st != "ok":
                        rec.violation("tomtom:raises", case, observed=res)
                        continue
                    got = torch.stack(list(res)).numpy()
                    for pos, i in enumerate((a_, b_, a_)):
                        if not same(got[:, pos], al[i]):
                            rec.violation("tomtom:result_depends_on_history:equal_length_triples", dict(case, query_position=pos), expected=al[i][0][:4], observed=got[:, pos][0][:4])
                            break
    # more than 1024 queries in one call: row i is still the result of query i alone
    Qbig = [pat(1 + (k * 7) % 6, k) for k in range(1100)]
    Tsm = Ts[:12]
    for rc in (True, False):
        st, res = call(TT.tomtom, Qbig, Tsm, n_jobs=4, reverse_complement=rc)
        rec.case(1, 1)
        rec.count("traces_validated_against_impl")
        case = dict(fn="tomtom", n_queries=len(Qbig), n_targets=len(Tsm), n_jobs=4, reverse_complement=rc, generator="pat(L,k)")
        if st != "ok":
            rec.violation("tomtom:raises", case, observed=res)
            continue
        got = torch.stack(list(res)).numpy()
        for i in (0, 1, 255, 256, 257, 1023, 1024, 1025, 1099):
            one = torch.stack(list(TT.tomtom([Qbig[i]], Tsm, n_jobs=1, reverse_complement=rc))).numpy()[:, 0]
            if not same(got[:, i], one):
                rec.violation("tomtom:row_of_large_call_differs_from_single_query_call", dict(case, query_index=i), expected=one[0][:4], observed=got[:, i][0][:4])
                break
    # queries x targets beyond 2^22 pairs in one call (8200 PPM queries against 260 targets and their reverse complements)
    if True:
        Qhuge = [pat(2 + (k * 7) % 4, k) for k in range(8200)]
        Thuge = Ts[:260]
        st, res = call(TT.tomtom, Qhuge, Thuge, n_jobs=8)
        rec.case(1, 1)
        rec.count("traces_validated_against_impl")
        case = dict(fn="tomtom", n_queries=len(Qhuge), n_targets=len(Thuge), n_jobs=8, reverse_complement=True, generator="pat(L,k)")
        if st != "ok":
            rec.violation("tomtom:raises", case, observed=res)
        else:
            got = torch.stack(list(res)).numpy()
            for i in (0, 4095, 4096, 8191, 8192, 8193, 8199):
                one = torch.stack(list(TT.tomtom([Qhuge[i]], Thuge, n_jobs=1))).numpy()[:, 0]
                if not same(got[:, i], one):
                    rec.violation("tomtom:row_of_large_call_differs_from_single_query_call", dict(case, query_index=i), expected=one[0][:4], observed=got[:, i][0][:4])
                    break
        del res
    numba.set_num_threads(16)
    rec.sample(dict(kind="long", query_lengths=qlens, n_jobs=[1, 2, 5, 16], many_queries=[1100, 8200], nondefault=["n_median_bins 50/7/300", "n_score_bins 50/200", "no hashing"],
                    mixed_storage=names))


def run_nearest(rec, tier, seed):
    from tangermeme.tools import tomtom as TT
    pool = [motif(q) for q in QUERY_POOL]
    for tsi, tset in enumerate(TARGET_SETS):
        # duplicate a target so that exact p-value ties occur inside the top-n
        Tc = tset + [tset[1], tset[0]]
        Ts = [motif(t) for t in Tc]
        nT = len(Ts)
        for rc in (False, True):
            for hashing in (None, 100):
                if tier == "quick" and (rc == (hashing is None)) == (tsi == 0):
                    continue      # quick: each target set meets two of the four (strand mode, hashing) combinations
                full = [t.numpy() for t in TT.tomtom(pool, Ts, n_target_bins=hashing, reverse_complement=rc, n_jobs=1)]
                for nn in range(1, nT + 1):
                    for nj in (1, 3):
                        st, res = call(TT.tomtom, pool, Ts, n_nearest=nn, n_target_bins=hashing, reverse_complement=rc, n_jobs=nj)
                        rec.case(len(pool), len(pool))
                        rec.count("traces_validated_against_impl")
                        case = dict(fn="tomtom", targets=Tc, n_nearest=nn, reverse_complement=rc, hashing=hashing, n_jobs=nj)
                        if st != "ok" or len(res) != 6:
                            rec.violation("tomtom:n_nearest_raises", case, observed=res)
                            continue
                        r = [t.numpy() for t in res]
                        for qi in range(len(pool)):
                            p = r[0][qi]
                            idx = r[5][qi].astype(int)
                            exp_p = numpy.sort(full[0][qi])[:nn]
                            c2 = dict(case, query=QUERY_POOL[qi])
                            if p.shape != (nn,) or not same(numpy.ascontiguousarray(p), numpy.ascontiguousarray(exp_p)):
                                rec.violation("tomtom:n_nearest_not_the_n_smallest_p_values", c2, expected=exp_p, observed=p)
                                break
                            if len(set(idx.tolist())) != nn or idx.min() < 0 or idx.max() >= nT:
                                rec.violation("tomtom:n_nearest_indices_invalid", c2, observed=idx)
                                break
                            if any(not same(numpy.ascontiguousarray(r[k][qi]), numpy.ascontiguousarray(full[k][qi][idx])) for k in range(5)):
                                rec.violation("tomtom:n_nearest_fields_do_not_match_index", c2, observed=[r[k][qi] for k in range(5)])
                                break
                        rec.observe(tsi, rc, hashing, nn, r[5])
    rec.sample(dict(kind="nearest", n_nearest="1..n_targets", targets="target sets with duplicated motifs (exact ties)"))


def run_annotate(rec, tier, seed):
    import pandas
    from tangermeme.annotate import annotate_seqlets
    from tangermeme.tools import tomtom as TT
    from tangermeme.utils import one_hot_encode
    seqs = ["CGGATAAGATAACCGGATACGT", "TTGATANNCGGATAAACGGATA", "ACGTCGGATAACGGATAACGGA"]
    X = torch.stack([one_hot_encode(s) for s in seqs]).double()
    motifs = {"m%d" % i: torch.from_numpy(motif(t)) for i, t in enumerate(TARGET_SETS[0])}
    motifs["gata"] = torch.tensor([[.1, .8, .1, .8], [.1, .05, .1, .05], [.7, .05, .1, .1], [.1, .1, .7, .05]]).double()
    # nested seqlets that differ only by trailing A's, seqlets with N columns, different lengths, duplicates
    sl = [(0, 0, 5), (0, 0, 6), (0, 0, 7), (1, 2, 9), (1, 8, 14), (2, 4, 10), (0, 7, 12), (2, 4, 10), (0, 1, 5)]
    alone = {}
    for nn in (1, 2):
        for s in sorted(set(sl)):
            df = pandas.DataFrame([s], columns=["example_idx", "start", "end"])
            idx, p = annotate_seqlets(X, df, motifs, n_nearest=nn, n_jobs=1)
            alone[(s, nn)] = (idx.numpy().copy(), p.numpy().copy())
            # equals tomtom on the seqlet's own sequence
            ref = TT.tomtom([X[s[0], :, s[1]:s[2]].numpy()], [m.numpy() for m in motifs.values()], n_nearest=nn, n_jobs=1)
            rec.count("traces_validated_against_impl")
            if not same(ref[0].numpy(), p.numpy()) or not numpy.array_equal(ref[5].numpy().astype(int), idx.numpy().astype(int)):
                rec.violation("annotate_seqlets:differs_from_tomtom_on_the_span", dict(fn="annotate_seqlets", seqlet=list(s), n_nearest=nn))
    sizes = (1, 2, 3) if tier == "quick" else (1, 2, 3, 4)
    for k in sizes:
        for sub in itertools.permutations(range(len(sl)), k):
            if tier == "quick" and k == 3 and (sub[0] + sub[1] * 2 + sub[2]) % 4:
                continue
            if k == 4 and (sub[0] + sub[1] * 2 + sub[2] * 3 + sub[3]) % 9:
                continue
            rows = [sl[i] for i in sub]
            df = pandas.DataFrame(rows, columns=["example_idx", "start", "end"])
            for nn, nj in ((1, 1), (2, 3), (1, 4)):
                st, val = call(annotate_seqlets, X, df, motifs, n_nearest=nn, n_jobs=nj)
                rec.case(1, int(k >= 2))
                rec.count("traces_validated_against_impl")
                case = dict(fn="annotate_seqlets", seqlets=[list(r) for r in rows], spans=[seqs[r[0]][r[1]:r[2]] for r in rows], n_nearest=nn, n_jobs=nj)
                if st != "ok":
                    rec.violation("annotate_seqlets:raises", case, observed=val)
                    continue
                idx, p = val
                for pos, r in enumerate(rows):
                    ei, ep = alone[(r, nn)]
                    if not same(numpy.ascontiguousarray(p.numpy()[pos]), numpy.ascontiguousarray(ep[0])) or \
                            not numpy.array_equal(idx.numpy()[pos], ei[0]):
                        rec.violation("annotate_seqlets:result_depends_on_co_annotated_seqlets", dict(case, position=pos),
                                      expected=[ei[0], ep[0]], observed=[idx.numpy()[pos], p.numpy()[pos]])
                        break
            rec.observe(sub)
    rec.sample(dict(kind="annotate", seqlets=sl, sequences=seqs, ordered_subsets="all of size <= %d" % max(sizes)))


def run_shard(sh, tier, seed):
    rec = Recorder(PID, sh["name"])
    if sh["kind"] == "model":
        run_model(rec, sh, tier, seed)
    elif sh["kind"] == "long":
        run_long(rec, tier, seed)
    elif sh["kind"] == "nearest":
        run_nearest(rec, tier, seed)
    else:
        run_annotate(rec, tier, seed)
    return rec.result()


def replay(v):
    from tangermeme.tools import tomtom as TT
    c = v["case"]
    if c.get("fn") == "tomtom(model)" and "order" in c:
        Ts = [motif(t) for t in c["targets"]]
        Qs = [motif(q) for q in c["queries"]]
        poison = float(c["poison"])
        r, sc = model_run(TT, Qs, Ts, poison, c["virtual_threads"], c["order"], c["assign"], c["reverse_complement"])
        ok = True
        txt = []
        for pos, Q in enumerate(Qs):
            a, _ = model_run(TT, [Q], Ts, 0.0, 1, [0], [0], c["reverse_complement"])
            if not same(r[:, pos], a[:, 0]):
                ok = False
                txt.append("query %d: with history %s alone %s" % (pos, r[:, pos][:3].tolist(), a[:, 0][:3].tolist()))
        if sc.footprint_violations:
            ok = False
            txt.append("footprint violations %s" % sc.footprint_violations[:3])
        return ok, "model run of _tomtom under schedule order=%s assign=%s poison=%s: %s" % (c["order"], c["assign"], c["poison"], "; ".join(txt) or "history independent")
    rec = Recorder(PID, "replay")
    if "n_nearest" in c and c.get("fn") == "tomtom":
        run_nearest(rec, "quick", 0)
    elif c.get("fn") == "annotate_seqlets":
        run_annotate(rec, "quick", 0)
    else:
        return True, "re-run the shard %s" % v.get("shard")
    hit = [x for x in rec.violations if x["sig"] == v["sig"]]
    return (not hit), "replayed family: %d violations with signature %s" % (len(hit), v["sig"])
