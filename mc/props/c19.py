"""C19 - called seqlets are well-formed spans whose reported statistics match the input.

Exhaustive over bump placements: a fixed low-amplitude background (table selected by VERIF_SEED) plus 1-2 planted
bumps of every width / sign / amplitude in the grid at EVERY start position (so bumps touch position 0, 1, L-1 and
each other), for every (threshold, min/max length, additional_flanks) and every (window, flank) of the TF-MoDISco
caller.  Oracle: invariants on every returned row, recomputed from the input track in float64.
"""
import itertools

import numpy
import torch

from mc.common import call
from mc.report import Recorder

PID = "C19"
LEVEL = "exploration"
REDUCED = {'quick': 'second bump / TF-MoDISco bumps at every second position'}
RULE = ("cases = (caller, background table, bump set (width, sign, amplitude, start), parameters) enumerated completely over the "
        "grid; non-trivial = the call returned at least one seqlet (every returned row is checked); also counted: rows with "
        "start == 0 and rows with end == L")
ASSUMPTIONS = ["recursive_seqlets: float64 tracks, attribution tolerance 1e-9; tfmodisco_seqlets: float32 tracks (its quantile step requires it), tolerance 1e-5", "a ZeroDivisionError is accepted only when the reference confirms a span length with no positive or no non-positive window (undefined null); for tfmodisco_seqlets only when the null sample drawn for the track has no positive or no negative value, and never for more than a quarter of a shard's calls", "backgrounds contain both signs for every span length so that the null distributions are defined"]


def bound(tier):
    return ("recursive: L=40, 1 bump at every position x 3 widths x 2 signs x 2 amplitudes, 2 bumps on a reduced grid; tfmodisco: L=80, window {5,9}, flank {0,2,5}; L=40, even windows {12,20}, flank {0,5,10,12,14,17} (seqlet == track and seqlet longer than the track), 3 and 6 examples"
            if tier == "quick" else
            "recursive: L in {40,60}, 1 bump at every position, 2 bumps (second at every position for a reduced first set), 1-3 examples; tfmodisco: L in {80,120}, window {5,9,21}, flank {0,2,5,10}; L=40, even windows {6,12,20}, flank {0,5,10,12,14,17}, 3 and 6 examples")


def shards(tier, seed):
    out = []
    Ls = (40,) if tier == "quick" else (40, 60)
    for L in Ls:
        for mm in ((3, 8), (4, 12), (4, 25)):
            for nb in (1, 2):
                out.append(dict(name="rec/L%d/m%d-%d/b%d" % (L, mm[0], mm[1], nb), kind="rec", L=L, mm=mm, nb=nb, weight=L * 50 * nb))
    out.append(dict(name="rec/L300/m4-25/b1", kind="rec", L=300, mm=(4, 25), nb=1, long=True, weight=30000))
    if tier != "quick":
        out.append(dict(name="rec/L600/m4-25/b1", kind="rec", L=600, mm=(4, 25), nb=1, long=True, weight=60000))
    for L in ((80,) if tier == "quick" else (80, 120)):
        for w in ((5, 9) if tier == "quick" else (5, 9, 21)):
            out.append(dict(name="tfm/L%d/w%d" % (L, w), kind="tfm", L=L, w=w, weight=L * 30))
    # even window sizes on tracks about as long as one seqlet: flanks for which the seqlet fits exactly (window + 2*flank == L) and for
    # which it no longer fits (window + flank <= L < window + 2*flank: the two masked margins overlap), several examples per track table
    for w in ((12, 20) if tier == "quick" else (6, 12, 20)):
        out.append(dict(name="tfm/L40short/w%d" % w, kind="tfm", L=40, w=w, ns=(3, 6), flanks=(0, 5, 10, 12, 14, 17), step=1, weight=2400))
    return out


def background(n, L, seed, amp=0.1):
    rs = numpy.random.RandomState(1000 + seed % 3)
    x = rs.uniform(-amp, amp, size=(n, L))
    x[:, ::7] *= -1
    return x


def degenerate_null(X, mn, mx):
    """True iff for some span length j the windows used for the null (k in range(L-j)) are all positive or all
    non-positive: the caller's null distribution is then undefined (it divides by the count) - outside the domain."""
    n, L = X.shape
    cs = numpy.cumsum(X, axis=1)
    for j in range(mn, mx + 1):
        d = cs[:, j:L] - cs[:, :L - j]
        if not (d > 0).any() or not (d <= 0).any():
            return True
    return False


def tfm_null_undefined(Xt, w):
    """True iff the null sample the TF-MoDISco caller draws for this track has no positive or no negative value (its
    fitted Laplacian is undefined, e.g. a quantile coincides with the mode): thresholds cannot be computed - outside the domain."""
    from tangermeme.seqlet import _laplacian_null
    try:
        pos, neg = _laplacian_null(Xt.unfold(-1, w, 1).sum(dim=-1))
    except Exception:  # noqa: BLE001
        return False
    return len(pos) == 0 or len(neg) == 0


def check_rec_rows(rec, df, X, thr, mn, mx, fl, case):
    n, L = X.shape
    cols = list(df.columns)
    if cols != ['example_idx', 'start', 'end', 'attribution', 'p-value']:
        rec.violation("recursive_seqlets:columns", case, observed=cols)
        return 0, 0, 0
    ps = df['p-value'].values
    if len(ps) > 1 and not (numpy.diff(ps) >= 0).all():
        rec.violation("recursive_seqlets:not_sorted_by_p", case, observed=ps[:8])
    n0 = nl = 0
    for r in df.itertuples(index=False):
        e, s, t, attr, p = int(r[0]), int(r[1]), int(r[2]), float(r[3]), float(r[4])
        c = dict(case, row=[e, s, t, attr, p])
        if not (0 <= e < n):
            rec.violation("recursive_seqlets:bad_example_idx", c)
            continue
        if not (0 <= s < t <= L):
            rec.violation("recursive_seqlets:span_outside_example", c)
            continue
        ln = t - s
        lo = mn + (2 * fl if (s > 0 and t < L) else 0)
        if ln > mx + 2 * fl or ln < min(lo, mn):
            rec.violation("recursive_seqlets:length_out_of_range", c, expected=[mn, mx + 2 * fl], observed=ln)
            continue
        if s > 0 and t < L and ln < mn + 2 * fl:
            rec.violation("recursive_seqlets:length_out_of_range", c, expected=[mn + 2 * fl, mx + 2 * fl], observed=ln)
            continue
        true = float(X[e, s:t].sum())
        if abs(attr - true) > 1e-9 * max(1.0, abs(true)):
            kind = "start0" if s == 0 else "interior"
            rec.violation("recursive_seqlets:attribution_wrong:" + kind, c, expected=true, observed=attr)
            continue
        if not (p <= thr):
            rec.violation("recursive_seqlets:p_above_threshold", c, expected=thr, observed=p)
            continue
        n0 += int(s == 0)
        nl += int(t == L)
    return len(df), n0, nl


def run_rec(rec, sh, tier, seed):
    from tangermeme.seqlet import recursive_seqlets
    L, (mn, mx), nb = sh["L"], sh["mm"], sh["nb"]
    widths = sorted(set([mn, mn + 2, mx - 1]))
    tot_rows = tot0 = totL = tot_runs = 0
    bumps1 = [(w, sg, a, s) for w in widths for sg in (1, -1) for a in (1.0, 3.0) for s in range(0, L - w + 1)]
    if sh.get("long"):
        bumps1 = [b for b in bumps1 if b[3] in (0, 1, 2, 3, 5, 127, 128, 255, 256, 300, L - b[0] - 3, L - b[0] - 1, L - b[0]) and b[2] == 3.0]
    if nb == 1:
        bumpsets = [(b,) for b in bumps1]
        ns = (1, 2, 3) if tier != "quick" else (1, 2)
        if sh.get("long"):
            ns = (1, 12)              # also many examples
    else:
        firsts = [(w, sg, 3.0, s) for w in widths[:2] for sg in (1, -1) for s in (0, 1, 2, L // 2)]
        seconds = [(w, sg, 1.0, s) for w in widths[:2] for sg in (1, -1) for s in range(0, L - widths[1] + 1, 1 if tier != "quick" else 2)]
        bumpsets = [(a, b) for a in firsts for b in seconds]
        ns = (2,)
    for n in ns:
        base = background(n, L, seed)
        for bi, bs in enumerate(bumpsets):
            X = base.copy()
            for k, (w, sg, a, s) in enumerate(bs):
                X[(k + bi) % n, s:s + w] += sg * a        # bumps of one set may sit in different examples
            Xc = X.copy()
            thrs = (0.01, 0.05, 0.2)
            fls = (0, 1, 3, 5)
            for thr in thrs:
                for fl in fls:
                    if nb == 2 and (thr, fl) not in ((0.05, 3), (0.2, 0), (0.01, 5)):
                        continue
                    case = dict(fn="recursive_seqlets", L=L, n=n, bumps=[list(b) for b in bs], bump_rows=[(k + bi) % n for k in range(len(bs))],
                                threshold=thr, min_seqlet_len=mn, max_seqlet_len=mx, additional_flanks=fl, seed=seed)
                    arg = torch.from_numpy(X) if (bi + fl) % 2 else X
                    st, df = call(recursive_seqlets, arg, threshold=thr, min_seqlet_len=mn, max_seqlet_len=mx, additional_flanks=fl)
                    if st != "ok":
                        rec.case(1, 0)
                        if "ZeroDivision" in str(df) and degenerate_null(Xc, mn, mx):
                            rec.count("refused_degenerate_null")   # some span length has no positive or no negative window
                            continue
                        rec.violation("recursive_seqlets:raises", case, observed=df)
                        continue
                    nr, n0, nl = check_rec_rows(rec, df, Xc, thr, mn, mx, fl, case)
                    rec.case(1, int(nr > 0))
                    tot_rows += nr
                    tot0 += n0
                    totL += nl
                    tot_runs += int(nr > 0)
                    if not numpy.array_equal(X, Xc):
                        rec.violation("recursive_seqlets:input_modified", case)
                        X = Xc.copy()
                    rec.observe(nr, n0, float(df['attribution'].sum()) if nr else 0.0)
    rec.count("rows_checked", tot_rows)
    rec.count("rows_with_start_0", tot0)
    rec.count("rows_with_end_L", totL)
    rec.count("runs_with_seqlets", tot_runs)
    rec.sample(dict(kind="rec", L=L, min_max=[mn, mx], bumps=nb, bump_sets=len(bumpsets), thresholds=[0.01, 0.05, 0.2], flanks=[0, 1, 3, 5],
                    example_bumps=[list(b) for b in bumpsets[0]]))


def run_tfm(rec, sh, tier, seed):
    from tangermeme.seqlet import tfmodisco_seqlets
    L, w = sh["L"], sh["w"]
    tot_rows = tot_runs = tot0 = totL = 0
    n_calls = n_refused = 0
    flanks = sh.get("flanks") or ((0, 2, 5) if tier == "quick" else (0, 2, 5, 10))
    n_short = n_whole = 0
    for n in sh.get("ns", (1, 2, 3)):
        base = background(n, L, seed, amp=0.2)
        widths = (max(3, w - 2), w + 2)
        step = sh.get("step") or (1 if tier != "quick" else 2)
        bumps = [(bw, sg, a, s) for bw in widths for sg in (1, -1) for a in (2.0,) for s in range(0, L - bw + 1, step)]
        for bi, b in enumerate(bumps):
            X = base.copy()
            bw, sg, a, s = b
            X[bi % n, s:s + bw] += sg * a
            plateau = bi % 4 == 3 and bw > w
            if plateau:
                # a saturated, flat-topped bump (constant value): the window sums inside it are bit-identical, so the maximum is tied
                X[bi % n, s:s + bw] = sg * a
            # a second, weaker bump elsewhere so that several seqlets per example occur
            s2 = (s + L // 2) % (L - bw)
            X[(bi + 1) % n, s2:s2 + bw] -= sg * 1.0
            huge = bi % 4 == 1
            if huge:
                # large dynamic range: a peak four orders of magnitude above everything else near the start of every example (a reported
                # attribution is the sum over the seqlet's own window, whatever precedes it on the track)
                X[:, 2:8] += 3e4 * (1 if bi % 8 == 1 else -1)
            Xt = torch.from_numpy(X.astype(numpy.float32))    # the caller's quantile step requires float32
            Xc = Xt.clone()
            for fl in flanks:
                case = dict(fn="tfmodisco_seqlets", L=L, n=n, window_size=w, flank=fl, bump=list(b), second_bump_start=s2, seed=seed, huge_peak_at_2_8=huge, flat_topped=plateau)
                st, df = call(tfmodisco_seqlets, Xt, window_size=w, flank=fl)
                n_calls += 1
                n_short += int(w + 2 * fl > L)
                if st != "ok":
                    rec.case(1, 0)
                    if "ZeroDivision" in str(df) and tfm_null_undefined(Xc, w):
                        # the Laplacian null fitted to this track is undefined (no positive or no negative null sample): the caller
                        # refuses loudly and returns nothing, which the property does not speak about
                        rec.count("refused_degenerate_null")
                        n_refused += 1
                        continue
                    rec.violation("tfmodisco_seqlets:raises", case, observed=df)
                    continue
                rec.case(1, int(len(df) > 0))
                tot_runs += int(len(df) > 0)
                if not torch.equal(Xt, Xc):
                    rec.violation("tfmodisco_seqlets:input_modified", case)
                    Xt = Xc.clone()
                sup = int(0.5 * w) + fl
                rows = [(int(r[0]), int(r[1]), int(r[2]), float(r[3])) for r in df.itertuples(index=False)]
                for (e, s_, t_, attr) in rows:
                    c = dict(case, row=[e, s_, t_, attr])
                    if not (0 <= e < n) or not (0 <= s_ < t_ <= L):
                        rec.violation("tfmodisco_seqlets:span_outside_example", c)
                        continue
                    if t_ - s_ != w + 2 * fl:
                        rec.violation("tfmodisco_seqlets:wrong_span_length", c, expected=w + 2 * fl, observed=t_ - s_)
                        continue
                    true = float(Xc[e, s_ + fl:t_ - fl].double().sum())
                    if abs(attr - true) > 1e-5 * max(1.0, float(Xc[e, s_ + fl:t_ - fl].double().abs().sum())):
                        rec.violation("tfmodisco_seqlets:attribution_wrong", c, expected=true, observed=attr)
                        continue
                    tot_rows += 1
                    tot0 += int(s_ == 0)
                    totL += int(t_ == L)
                    n_whole += int(s_ == 0 and t_ == L)
                for e in range(n):
                    starts = sorted(r[1] for r in rows if r[0] == e)
                    for a_, b_ in zip(starts, starts[1:]):
                        if b_ - a_ <= sup:
                            rec.violation("tfmodisco_seqlets:seqlets_closer_than_suppression_radius", dict(case, example=e, starts=[a_, b_]),
                                          expected="> %d" % sup, observed=b_ - a_)
                            break
                rec.observe(len(rows), sum(r[1] for r in rows))
    if n_refused * 4 > n_calls or tot_runs == 0:
        # refusals are the exception (a handful of single-example tracks): anything else means the caller stopped working
        rec.violation("tfmodisco_seqlets:raises:most_tracks_refused", dict(fn="tfmodisco_seqlets", L=L, window_size=w, seed=seed),
                      expected="< 25%% of %d calls" % n_calls, observed=n_refused)
    rec.count("rows_checked", tot_rows)
    rec.count("rows_with_start_0", tot0)
    rec.count("rows_with_end_L", totL)
    rec.count("runs_with_seqlets", tot_runs)
    rec.count("tfm_calls_on_tracks_shorter_than_a_seqlet", n_short)
    rec.count("tfm_rows_spanning_the_whole_track", n_whole)
    rec.sample(dict(kind="tfm", L=L, window=w, flanks=list(flanks), bumps="every start position, 2 widths, 2 signs, + a second weaker bump"))


def run_shard(sh, tier, seed):
    rec = Recorder(PID, sh["name"])
    if sh["kind"] == "rec":
        run_rec(rec, sh, tier, seed)
    else:
        run_tfm(rec, sh, tier, seed)
    return rec.result()


def replay(v):
    from tangermeme.seqlet import recursive_seqlets
    c = v["case"]
    rec = Recorder(PID, "replay")
    if c["fn"] == "recursive_seqlets":
        n, L = c["n"], c["L"]
        X = background(n, L, c.get("seed", 0))
        for row, (w, sg, a, s) in zip(c["bump_rows"], c["bumps"]):
            X[row, int(s):int(s) + int(w)] += sg * a
        st, df = call(recursive_seqlets, X.copy(), threshold=c["threshold"], min_seqlet_len=c["min_seqlet_len"],
                      max_seqlet_len=c["max_seqlet_len"], additional_flanks=c["additional_flanks"])
        if st != "ok":
            return False, "raised %s" % df
        check_rec_rows(rec, df, X, c["threshold"], c["min_seqlet_len"], c["max_seqlet_len"], c["additional_flanks"], c)
        return (not rec.violations), "recursive_seqlets on background(seed)+bumps %s flanks=%s ->\n%s\nviolations: %s" % (
            c["bumps"], c["additional_flanks"], df.head(8).to_string(), rec.violations[:2])
    run_tfm(rec, dict(L=c["L"], w=c["window_size"]), "thorough", c.get("seed", 0))
    hit = [x for x in rec.violations if x["sig"] == v["sig"]]
    return (not hit), "replayed tfmodisco family: %d violations with signature %s" % (len(hit), v["sig"])
