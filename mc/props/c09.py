"""C09 - saturation mutagenesis reports each single-character mutant at its own index.

Exhaustive over alphabet sizes, lengths, all (start, end) windows (+ the default end=-1 for every
start), batch sizes, output kinds (tensor / trailing dims / tuple), targets, hypothetical, args.
The model is exact-integer and sensitive to every (character, position), so a transposed or
mis-sized reshape is visible at every entry.  Reference: one mutant at a time.
"""
import itertools

import numpy
import torch

from mc.common import call, ohe
from mc.report import Recorder

PID = "C09"
LEVEL = "exploration"
RULE = ("cases = (A, L, window, N, batch_size, output kind, args, [target, hypothetical]) enumerated completely in the bound; "
        "non-trivial = window of >= 2 positions and A >= 2 with at least 2 distinct mutant predictions (index mix-ups observable)")
ASSUMPTIONS = ["CPU only", "negative `end` other than the documented default -1 is not exercised",
               "tuple-output models only with raw_outputs=True (documented limitation of the attribution path)"]


def bound(tier):
    return ("A in {2,4}, L in 1..5, all windows, boundary batch sizes" if tier == "quick" else
            "A in 2..5, L in 1..8 with every batch size 1..A*W+1 for L<=5 and boundary batch sizes above, plus L in {12,17,30} boundary windows")


def shards(tier, seed):
    out = []
    As = (2, 4) if tier == "quick" else (2, 3, 4, 5)
    Ls = range(1, 6) if tier == "quick" else list(range(1, 9)) + [12, 17, 30]
    for A in As:
        for L in Ls:
            for kind in ("tensor", "trailing", "tuple", "tuple1", "inplace_arg"):
                out.append(dict(name="A%d/L%d/%s" % (A, L, kind), A=A, L=L, kind=kind, weight=A * L * L * L))
    out.append(dict(name="history", history=True, A=4, L=4, kind="tensor", weight=2000))
    out.append(dict(name="long", long=True, A=4, L=300, kind="tensor", weight=3000))
    return out


class Model(torch.nn.Module):
    def __init__(self, A, L, kind, seed):
        super().__init__()
        rs = numpy.random.RandomState(7 + seed)
        self.kind = kind
        self.W = torch.from_numpy(rs.permutation(20 * 4 * A * L)[:4 * A * L].reshape(4, A * L).astype(numpy.float64)) - 7.0

    def forward(self, X, *args):
        x = X.double().reshape(X.shape[0], -1)
        y = x @ self.W.T                                        # (n, 4)
        for k, a in enumerate(args):
            y = y + 100000.0 * (k + 1) * a.double().reshape(a.shape[0], -1).sum(1, keepdim=True)
        if self.kind == "tensor":
            return y[:, :3]
        if self.kind == "tuple1":
            return (y[:, :3],)                                   # a tuple holding exactly one tensor
        if self.kind == "inplace_arg":
            for a in args:
                a.clamp_(min=-1e9)                               # the model touches its extra arguments in place (a no-op on the values)
            return y[:, :3]
        if self.kind == "trailing":
            return y.reshape(-1, 2, 2)
        return y[:, :3], y.reshape(-1, 2, 2)


def _windows(L, tier):
    w = [(s, e) for s in range(L) for e in range(s + 1, L + 1)]
    if L > 8:
        w = [(s, e) for (s, e) in w if s in (0, 1, L - 2, L - 1) or e in (1, 2, L - 1, L)]
        w = [(s, e) for (s, e) in w if (e - s) <= 3 or (s <= 1 and e >= L - 1)]
    w += [(s, -1) for s in range(L)]      # documented default end
    return w


def run_shard(sh, tier, seed):
    rec = Recorder(PID, sh["name"])
    if sh.get("history"):
        # one process, alternating alphabet sizes / lengths / output kinds on the same windows: nothing may be carried over between calls
        for (A, L, kind) in ((4, 4, "tensor"), (5, 4, "tensor"), (3, 4, "tuple"), (5, 4, "trailing"), (2, 4, "tensor"), (4, 5, "tuple"), (4, 4, "tensor")):
            run_one(rec, A, L, kind, "quick", seed)
        return rec.result()
    if sh.get("long"):
        run_long(rec, tier, seed)
        return rec.result()
    run_one(rec, sh["A"], sh["L"], sh["kind"], tier, seed)
    return rec.result()


def run_long(rec, tier, seed):
    """Lengths beyond 8-bit counts and the default batch size (A*W = 1200 and 2000 mutants per example; 10000 and 8400 - beyond
    2^13 -, thorough 66000 - beyond 2^16), default arguments."""
    from tangermeme.ism import saturation_mutagenesis
    for (A, L, s, e) in ((4, 300, 0, -1), (4, 300, 40, 300), (5, 400, 0, -1), (4, 70, 0, -1), (4, 2500, 0, -1), (5, 1700, 20, -1), (4, 17000, 100, 16600)):
        if L == 17000 and tier == "quick":
            continue
        model = Model(A, L, "tensor", seed)
        N = 2
        codes = numpy.stack([(numpy.arange(L) * (n + 3) + n + numpy.arange(L) // 7) % A for n in range(N)])
        X = ohe(codes, A)
        args = (torch.arange(N, dtype=torch.float64)[:, None] + 1,)
        e_ = L if e == -1 else e
        Wn = e_ - s
        with torch.no_grad():
            y0_ref = torch.cat([model(X[n:n + 1], args[0][n:n + 1]) for n in range(N)])
            yh_ref = torch.zeros(N, A, Wn, y0_ref.shape[1], dtype=torch.float64)
            for n in range(N):
                Xm = X[n:n + 1].repeat(A * Wn, 1, 1)
                for c in range(A):
                    for p in range(s, e_):
                        Xm[c * Wn + (p - s), :, p] = 0
                        Xm[c * Wn + (p - s), c, p] = 1
                yh_ref[n] = model(Xm, args[0][n:n + 1].repeat(A * Wn, 1)).reshape(A, Wn, -1)
        for bs in ((None, 1000, 255, 257) if L <= 400 else (None, 8192, 10000)):
            kw = {} if bs is None else dict(batch_size=bs)
            case = dict(fn="saturation_mutagenesis", A=A, L=L, N=N, start=s, end=e, batch_size=bs or "default(32)", kind="tensor", args=True)
            st, val = call(saturation_mutagenesis, model, X, args=args, start=s, end=e, raw_outputs=True, device="cpu", **kw)
            rec.case(1, 1)
            if st != "ok":
                rec.violation("ism:raw_raises:long", case, observed=val)
                continue
            if not torch.equal(val[0].double(), y0_ref) or tuple(val[1].shape) != tuple(yh_ref.shape) or not torch.equal(val[1].double(), yh_ref):
                rec.violation("ism:y_hat_misindexed:long", case)
            rec.observe(A, L, s, e, bs)
    rec.sample(dict(kind="long", cases=[[4, 300, 0, -1], [4, 300, 40, 300], [5, 400, 0, -1], [4, 70, 0, -1], [4, 2500, 0, -1], [5, 1700, 20, -1], "thorough: [4, 17000, 100, 16600]"], batch_sizes=["default", 1000, 255, 257, 8192, 10000]))


def run_one(rec, A, L, kind, tier, seed):
    from tangermeme.ism import saturation_mutagenesis
    model = Model(A, L, kind, seed)
    rs = numpy.random.RandomState(11 + seed)
    for (N, gap) in ((1, False), (2, False), (2, True)):
        codes = numpy.stack([(numpy.arange(L) * (n + 1) + n) % A for n in range(N)])
        if gap:
            # an unknown character ('N'): an all-zero column, as utils.one_hot_encode produces; the mutants at that
            # position are still "character c at p"
            if L < 2:
                continue
            codes[0, L // 2] = -1
            codes[1, 0] = -1
        X = ohe(codes, A)
        Xc = X.clone()
        for (s, e) in _windows(L, tier):
            e_ = L if e == -1 else e
            Wn = e_ - s
            nm = A * Wn
            if L <= 5 and tier != "quick":
                bss = list(range(1, nm + 2))
            else:
                bss = sorted(set(b for b in (1, 2, nm - 1, nm, nm + 1, 32) if b >= 1))
            for use_args in (False, True):
                args = None
                if use_args:
                    args = (torch.arange(N, dtype=torch.float64)[:, None] + 1, torch.arange(2 * N, dtype=torch.float64).reshape(N, 2) + 3)
                # reference, one mutant at a time
                with torch.no_grad():
                    def f(x, n):
                        a = () if args is None else tuple(a_[n:n + 1] for a_ in args)
                        o = model(x, *a)
                        return [o] if isinstance(o, torch.Tensor) else list(o)
                    y0_ref = [torch.cat([f(X[n:n + 1], n)[k] for n in range(N)]) for k in range(2 if kind == "tuple" else 1)]
                    argsc = None if args is None else [a_.clone() for a_ in args]
                    yh_ref = []
                    for k in range(len(y0_ref)):
                        t = torch.zeros((N, A, Wn) + tuple(y0_ref[k].shape[1:]), dtype=torch.float64)
                        for n in range(N):
                            for c in range(A):
                                for p in range(s, e_):
                                    xm = X[n:n + 1].clone()
                                    xm[0, :, p] = 0
                                    xm[0, c, p] = 1
                                    t[n, c, p - s] = f(xm, n)[k][0]
                        yh_ref.append(t)
                nontriv = int(Wn >= 2 and A >= 2)
                for bs in bss:
                    case = dict(fn="saturation_mutagenesis", A=A, L=L, N=N, start=s, end=e, batch_size=bs, kind=kind, args=use_args,
                                seqs=codes.tolist())
                    tag = ("default_end" if e == -1 and s > 0 else "window") + ":" + kind
                    st, val = call(saturation_mutagenesis, model, X, args=args, start=s, end=e, batch_size=bs, raw_outputs=True,
                                   device="cpu")
                    rec.case(1, nontriv)
                    if st != "ok":
                        rec.violation("ism:raw_raises:" + tag, case, observed=val)
                        continue
                    y0, yh = val
                    if kind in ("tuple", "tuple1") and (isinstance(y0, torch.Tensor) or isinstance(yh, torch.Tensor) or len(y0) != len(yh)):
                        rec.violation("ism:output_structure:" + tag, case, expected="y0 and y_hat: one entry per model output",
                                      observed="%s / %s" % (type(y0).__name__, type(yh).__name__))
                        continue
                    if args is not None and any(not torch.equal(a_, c_) for a_, c_ in zip(args, argsc)):
                        rec.violation("ism:args_modified", case)
                        for a_, c_ in zip(args, argsc):
                            a_.copy_(c_)
                    y0 = [y0] if isinstance(y0, torch.Tensor) else list(y0)
                    yh = [yh] if isinstance(yh, torch.Tensor) else list(yh)
                    bad = False
                    for k in range(len(y0_ref)):
                        if tuple(y0[k].shape) != tuple(y0_ref[k].shape) or not torch.equal(y0[k].double(), y0_ref[k]):
                            rec.violation("ism:y0_wrong:" + tag, dict(case, output=k), expected=y0_ref[k], observed=y0[k])
                            bad = True
                            break
                        if tuple(yh[k].shape) != tuple(yh_ref[k].shape):
                            rec.violation("ism:y_hat_shape:" + tag, dict(case, output=k), expected=list(yh_ref[k].shape), observed=list(yh[k].shape))
                            bad = True
                            break
                        if not torch.equal(yh[k].double(), yh_ref[k]):
                            idx = (yh[k].double() != yh_ref[k]).nonzero()[0].tolist()
                            rec.violation("ism:y_hat_misindexed:" + tag, dict(case, output=k, index=idx),
                                          expected=yh_ref[k][tuple(idx)], observed=yh[k][tuple(idx)])
                            bad = True
                            break
                    if bad:
                        continue
                    rec.observe(A, L, s, e, bs, float(yh[0].sum()))
                    if not torch.equal(X, Xc):
                        rec.violation("ism:input_modified", case)
                        X = Xc.clone()
                # raw outputs are the model's outputs for every mutant whatever `target` says (the target only selects what is attributed)
                if kind not in ("tuple", "tuple1"):
                    for target in (0, -1, slice(0, 2)):
                        st, val = call(saturation_mutagenesis, model, X, args=args, start=s, end=e, batch_size=7, raw_outputs=True, target=target, device="cpu")
                        rec.case(1, nontriv)
                        c3 = dict(fn="saturation_mutagenesis", A=A, L=L, N=N, start=s, end=e, kind=kind, args=use_args, raw_outputs=True,
                                  target=repr(target), seqs=codes.tolist())
                        if st != "ok":
                            rec.violation("ism:raw_raises:with_target", c3, observed=val)
                        elif tuple(val[1].shape) != tuple(yh_ref[0].shape) or not torch.equal(val[1].double(), yh_ref[0]) or not torch.equal(val[0].double(), y0_ref[0]):
                            rec.violation("ism:raw_outputs_depend_on_target", c3, expected=list(yh_ref[0].shape), observed=list(val[1].shape))
                # attribution output (single-tensor models only), boundary batch size only
                if kind in ("tuple", "tuple1"):
                    continue
                T = y0_ref[0].shape[1]
                for target in (None, 0, T - 1, slice(0, 2), -1, -T, slice(-2, None), slice(1, None)):
                    for hyp in ((False, True) if target is not None else (False, True, 0, numpy.bool_(False), numpy.bool_(True), 1)):
                        case = dict(fn="saturation_mutagenesis", A=A, L=L, N=N, start=s, end=e, kind=kind, args=use_args,
                                    target=repr(target), hypothetical=repr(hyp), seqs=codes.tolist())
                        tag = ("default_end" if e == -1 and s > 0 else "window") + ":" + kind
                        st, attr = call(saturation_mutagenesis, model, X, args=args, start=s, end=e, batch_size=7, target=target,
                                        hypothetical=hyp, device="cpu")
                        rec.case(1, nontriv)
                        # documented function, plain loops in float64
                        y0r, yhr = y0_ref[0].numpy(), yh_ref[0].numpy()
                        if target is None:
                            sel = list(range(T))
                        elif isinstance(target, int):
                            sel = [target % T]                  # targets counted from the end denote the same output as in indexing
                        else:
                            sel = list(range(T))[target]
                        exp = numpy.zeros((N, A, Wn))
                        for n in range(N):
                            for p in range(Wn):
                                d = numpy.stack([(yhr[n, c, p][sel] - y0r[n][sel]) for c in range(A)])   # (A, sel, ...)
                                d = d - d.mean(axis=0, keepdims=True)
                                exp[n, :, p] = d.reshape(A, -1).mean(axis=1)
                        if not hyp:
                            exp = exp * X[:, :, s:e_].numpy()
                        if st != "ok":
                            rec.violation("ism:attr_raises:" + tag, case, observed=attr)
                            continue
                        if tuple(attr.shape) != exp.shape or not numpy.allclose(attr.double().numpy(), exp, rtol=1e-9, atol=1e-7):
                            rec.violation("ism:attr_wrong:" + tag, case, expected=exp, observed=attr)
                            continue
                        rec.observe(float(attr.double().sum()))
    rec.sample(dict(A=A, L=L, kind=kind, windows=len(_windows(L, tier)), N="1,2", args="off/on"))


def replay(v):
    from tangermeme.ism import saturation_mutagenesis
    c = v["case"]
    rec = Recorder(PID, "replay")
    if v["sig"].endswith(":long"):
        r = run_shard(dict(name="replay", long=True), "thorough" if c["L"] > 3000 else "quick", 0)
    else:
        r = run_shard(dict(name="replay", A=c["A"], L=c["L"], kind=c["kind"]), "thorough" if c["L"] <= 5 else "quick", 0)
    hit = [x for x in r["violations"] if x["sig"] == v["sig"]]
    return (not hit), "re-ran family A=%s L=%s kind=%s: %d violations with signature %s%s" % (
        c["A"], c["L"], c["kind"], r["viol_sigs"].get(v["sig"], 0), v["sig"], ("\nfirst: %s" % hit[0]) if hit else "")
