"""C16 - loaded loci, signals and motifs are exactly what the files contain.

extract_loci: a synthetic genome (mixed case, N runs, every base position identifiable from the signal value
1000*chrom+pos) is written as FASTA + bigWig and also passed as in-memory dicts; EVERY locus (start, end) on every
chromosome is extracted alone for every (in_window, out_window, jitter) in the grid, and multi-locus calls check
order, round-robin interleaving, chroms filter, n_loci cap, count filters.  Reference: direct slicing.
read_meme: explicit-state exploration of the parser over line-kind layouts (model checking level): every MEME
layout in the bound (1..3/4 motifs x width x URL line x blank lines x CRLF x final newline x trailing spaces) is
generated, parsed by the real read_meme, and compared with the generated motif list.
"""
import itertools
import os
import shutil

import numpy
import torch

from mc import env
from mc.common import call
from mc.report import Recorder

PID = "C16"
LEVEL = "exploration"
REDUCED = {'quick': 'MEME layouts with 3 motifs use 5 of the 18 per-motif options', 'thorough': 'MEME layouts with 4 motifs use 5 of the 18 per-motif options'}
RULE = ("extract_loci cases = (input kind, chromosome, locus start, locus end, in_window, out_window, jitter) for every locus of "
        "the synthetic genome + multi-locus configurations; read_meme cases = MEME file layouts; all enumerated completely in the "
        "bound; non-trivial = the locus is kept (exact sequence/signal comparison) or the layout has >= 2 motifs")
ASSUMPTIONS = ["a locus whose expanded window exactly touches a chromosome end may be kept or omitted (property statement); crossing must be omitted, strictly inside must be kept",
               "bigWig values are float32 (position ids < 2^24 are exact)", "MEME layouts: no blank line between the letter-probability line and the matrix rows (MEME format)"]

GENOME = [("chr1", "ACGTNNacgtTTGA"), ("chrB", "ggCATNacT"), ("c3", "TTTTACGNNGCA")]


def bound(tier):
    return ("windows 1..4 x 1..4, jitter 0/1, every locus of a 3-chromosome genome (lengths 14, 9, 12); MEME: <=2 motifs all layouts, 3 motifs reduced"
            if tier == "quick" else
            "windows 1..6 x 1..6, jitter 0/1, every locus of a 3-chromosome genome; MEME: <=3 motifs all layouts (18 per motif x 8 file-level), 4 motifs reduced")


def shards(tier, seed):
    out = []
    W = 4 if tier == "quick" else 6
    for kind in ("file", "dict"):
        for iw in range(1, W + 1):
            out.append(dict(name="loci/%s/in%d" % (kind, iw), kind="loci", input=kind, iw=iw, W=W, weight=3000))
    out.append(dict(name="multi", kind="multi", weight=500))
    for nm in (1, 2, 3) + (() if tier == "quick" else (4,)):
        out.append(dict(name="meme/%d" % nm, kind="meme", n=nm, weight=18 ** min(nm, 3)))
    return out


# ------------------------------------------------------------------------------------------------ fixtures
def _fixtures(d):
    import pyBigWig
    fa = os.path.join(d, "g.fa")
    with open(fa, "w") as fh:
        for name, seq in GENOME:
            fh.write(">%s\n" % name)
            for i in range(0, len(seq), 5):          # multi-line FASTA records
                fh.write(seq[i:i + 5] + "\n")
    bws = []
    for t in range(2):
        bw = os.path.join(d, "s%d.bw" % t)
        b = pyBigWig.open(bw, "w")
        b.addHeader([(n, len(s)) for n, s in GENOME])
        for ci, (n, s) in enumerate(GENOME):
            pos = [p for p in range(len(s)) if not _gap(ci, p, t)]
            b.addEntries([n] * len(pos), pos, ends=[p + 1 for p in pos], values=[float(_sig(ci, p, t)) for p in pos])
        b.close()
        bws.append(bw)
    return fa, bws


def _gap(ci, p, t):
    """positions of track 1 that are uncovered in the bigWig and NaN in the in-memory array (both must read as 0)"""
    return t == 1 and (ci * 7 + p) % 11 == 3


def _sig(ci, p, t):
    if _gap(ci, p, t):
        return 0
    return (1000 * (ci + 1) + p) * (1 if t == 0 else -2) + (0 if t == 0 else 5)


def _ohe_np(s):
    x = numpy.zeros((4, len(s)), dtype=numpy.int8)
    for i, c in enumerate(s.upper()):
        if c in "ACGT":
            x[ACGT.index(c), i] = 1
    return x


ACGT = "ACGT"


def _dicts():
    seqs = {n: _ohe_np(s) for n, s in GENOME}
    sigs = [{n: numpy.array([numpy.nan if _gap(ci, p, t) else _sig(ci, p, t) for p in range(len(s))], dtype=numpy.float32) for ci, (n, s) in enumerate(GENOME)}
            for t in range(2)]
    return seqs, sigs


def _reindex(df, style):
    """the same rows under a non-default index: reversed labels / all-equal labels / string labels (row ORDER is what counts)"""
    df = df.copy()
    n = len(df)
    if style % 4 == 1:
        df.index = list(range(n - 1, -1, -1))
    elif style % 4 == 2:
        df.index = [0] * n
    elif style % 4 == 3:
        df.index = ["r%d" % ((7 * i + 3) % (n + 5)) for i in range(n)]
    return df


def _expect(ci, start, end, iw, ow, jit, with_signal=True):
    """-> ('keep'|'omit'|'either', seq (4, iw+2jit), signals (2, ow+2jit))"""
    name, s = GENOME[ci]
    Ln = len(s)
    mid = start + (end - start) // 2
    ow_eff = ow if with_signal else 0
    lo_i, hi_i = mid - iw // 2 - jit, mid + iw // 2 + jit + iw % 2
    lo_o, hi_o = mid - ow_eff // 2 - jit, mid + ow_eff // 2 + jit + ow_eff % 2
    lo, hi = min(lo_i, lo_o), max(hi_i, hi_o)
    if lo < 0 or hi > Ln:
        cls = "omit"
    elif lo > 0 and hi < Ln:
        cls = "keep"
    else:
        cls = "either"
    seq = _ohe_np(s[max(lo_i, 0):hi_i]) if lo_i >= 0 else None
    sig = numpy.array([[_sig(ci, p, t) for p in range(lo_o, hi_o)] for t in range(2)], dtype=numpy.float32)
    return cls, seq, sig


def run_loci(rec, sh, tier, seed):
    import pandas
    from tangermeme.io import extract_loci
    d = env.scratch_dir("c16")
    try:
        fa, bws = _fixtures(d)
        dseq, dsig = _dicts()
        iw = sh["iw"]
        n_keep = n_either = 0
        for ow in range(1, sh["W"] + 1):
            for jit in (0, 1):
                for with_sig in (True, False):
                    if not with_sig and ow != 1:
                        continue
                    for ci, (name, s) in enumerate(GENOME):
                        for start in range(len(s)):
                            for end in range(start + 1, len(s) + 1):
                                cls, eseq, esig = _expect(ci, start, end, iw, ow, jit, with_sig)
                                loci = pandas.DataFrame({"chrom": [name], "start": [start], "end": [end]}, index=[(start + end) % 3])
                                # the coordinate columns in every integer dtype a table may carry (unsigned ones included)
                                cdt = ("int64", "int32", "uint32", "uint64", "uint16", "int16")[(start + 2 * end + ow) % 6]
                                loci = loci.astype({"start": cdt, "end": cdt})
                                if sh["input"] == "file":
                                    a = dict(sequences=fa, signals=bws if with_sig else None)
                                else:
                                    a = dict(sequences=dseq, signals=dsig if with_sig else None)
                                st, val = call(extract_loci, loci, in_window=iw, out_window=ow, max_jitter=jit, **a)
                                case = dict(fn="extract_loci", input=sh["input"], chrom=name, start=start, end=end, in_window=iw,
                                            out_window=ow, max_jitter=jit, signals=with_sig, coordinate_dtype=cdt)
                                kept = st == "ok"
                                rec.case(1, int(kept))
                                if not kept and "at least one array" not in str(val) and "need at least" not in str(val):
                                    rec.violation("extract_loci:raises", case, observed=val)
                                    continue
                                if cls == "keep" and not kept:
                                    rec.violation("extract_loci:omits_interior_locus", case, observed=val)
                                    continue
                                if cls == "omit" and kept:
                                    rec.violation("extract_loci:keeps_locus_crossing_chromosome_end", case)
                                    continue
                                n_keep += int(kept and cls == "keep")
                                n_either += int(cls == "either")
                                if not kept:
                                    continue
                                X = val[0] if with_sig else val
                                if tuple(X.shape) != (1, 4, iw + 2 * jit) or not numpy.array_equal(X[0].numpy(), eseq):
                                    rec.violation("extract_loci:wrong_sequence", case, expected=eseq, observed=X[0])
                                    continue
                                if with_sig:
                                    y = val[1]
                                    if tuple(y.shape) != (1, 2, ow + 2 * jit) or not numpy.array_equal(y[0].numpy().astype(numpy.float32), esig):
                                        rec.violation("extract_loci:wrong_signal", case, expected=esig, observed=y[0])
                                        continue
                                rec.observe(name, start, end, ow, jit, int(X.sum()))
        rec.count("kept_interior", n_keep)
        rec.count("touching_either", n_either)
        rec.sample(dict(kind="loci", input=sh["input"], in_window=iw, out_windows="1..%d" % sh["W"], jitter="0,1",
                        loci="every (start,end) on %s" % [g[0] for g in GENOME]))
    finally:
        shutil.rmtree(d, ignore_errors=True)


def run_multi(rec, tier, seed):
    import pandas
    from tangermeme.io import extract_loci
    d = env.scratch_dir("c16m")
    try:
        fa, bws = _fixtures(d)
        dseq, dsig = _dicts()
        iw, ow = 3, 2
        # interior loci only (classification 'keep'), so row alignment is unambiguous
        interior = []
        for ci, (name, s) in enumerate(GENOME):
            for start in range(len(s)):
                for end in range(start + 1, min(len(s), start + 4) + 1):
                    if _expect(ci, start, end, iw, ow, 0)[0] == "keep":
                        interior.append((ci, name, start, end))
        crossing = [(0, "chr1", 0, 1), (1, "chrB", 8, 9)]
        # exhaustive chromosome patterns: set A = every chromosome sequence of length 3, set B = every one of length 2
        # (so that a chroms filter removes loci from the head / middle / tail of each set in every combination)
        by = {ci: [r for r in interior if r[0] == ci] for ci in range(len(GENOME))}
        pattern_cfgs = []
        for pa in itertools.product(range(len(GENOME)), repeat=3):
            for pb in itertools.product(range(len(GENOME)), repeat=2):
                used = {ci: 0 for ci in by}
                S = []
                for pat in (pa, pb):
                    row = []
                    for ci in pat:
                        row.append(by[ci][(used[ci] * 5 + 1) % len(by[ci])])
                        used[ci] += 1
                    S.append(row)
                pattern_cfgs.append(S)
        sets_cfgs = []
        rs = interior
        sets_cfgs.append([rs[0:5]])
        sets_cfgs.append([rs[0:3], rs[10:11], []])
        sets_cfgs.append([rs[20:21], rs[3:9]])
        sets_cfgs.append([rs[5:8] + crossing + rs[30:32], rs[40:44], rs[50:51]])
        sets_cfgs.append([[], rs[7:9]])
        def configs():
            for sets in sets_cfgs:
                for form in ("df", "bedfile"):
                    for inp in ("file", "dict"):
                        for chroms in (None, ["chr1", "c3"], ["chrB"]):
                            for n_loci in (None, 1, 2, 4):
                                for cnt in (None, "min", "max"):
                                    yield sets, form, inp, chroms, n_loci, cnt
            for sets in pattern_cfgs:
                for chroms in (["chr1", "c3"], ["chrB"], ["c3"], ["chrB", "chr1"]):
                    for n_loci in (None, 2):
                        yield sets, "df", "dict", chroms, n_loci, None
        for sets, form, inp, chroms, n_loci, cnt in configs():
            if True:
                if True:
                    if True:
                        if True:
                            if True:
                                dfs = [pandas.DataFrame(dict(chrom=[r[1] for r in S], start=[r[2] for r in S], end=[r[3] for r in S]),
                                                        columns=["chrom", "start", "end"]).astype(dict(chrom=str, start="int64", end="int64"))
                                       for S in sets]
                                if form == "df":
                                    dfs = [_reindex(df, len(rec.samples) + k_ + (n_loci or 0) + len(S_)) for k_, (df, S_) in enumerate(zip(dfs, sets))]
                                if form == "bedfile":
                                    paths = []
                                    for k, df in enumerate(dfs):
                                        p = os.path.join(d, "l%d.bed" % k)
                                        df.assign(extra="x").to_csv(p, sep="\t", header=False, index=False)
                                        paths.append(p)
                                    arg = paths
                                    if any(len(df) == 0 for df in dfs):
                                        continue   # an empty bed file cannot be read by pandas: not a property matter
                                else:
                                    arg = dfs
                                if len(arg) == 1:
                                    arg = arg[0]
                                # reference order: round robin over sets after the chroms filter
                                filt = [[r for r in S if chroms is None or r[1] in chroms] for S in sets]
                                order = []
                                for i in range(max((len(S) for S in filt), default=0)):
                                    for S in filt:
                                        if i < len(S):
                                            order.append(S[i])
                                exp = []
                                thr = None
                                for r in order:
                                    cls, eseq, esig = _expect(r[0], r[2], r[3], iw, ow, 0)
                                    if cls == "omit":
                                        continue
                                    if n_loci is not None and len(exp) == n_loci:
                                        break
                                    tot = float(esig[0].sum())
                                    if cnt is not None and thr is None:
                                        thr = tot      # threshold = exact window sum of the first candidate: at / below / above occur
                                    if cnt == "min" and tot < thr:
                                        continue
                                    if cnt == "max" and tot > thr:
                                        continue
                                    exp.append((r, eseq, esig))
                                if cnt is not None and thr is None:
                                    continue
                                kw = {}
                                if cnt == "min":
                                    kw["min_counts"] = thr
                                if cnt == "max":
                                    kw["max_counts"] = thr
                                a = dict(sequences=fa, signals=bws) if inp == "file" else dict(sequences=dseq, signals=dsig)
                                st, val = call(extract_loci, arg, chroms=chroms, in_window=iw, out_window=ow, n_loci=n_loci, **a, **kw)
                                case = dict(fn="extract_loci", sets=[[(r[1], r[2], r[3]) for r in S] for S in sets], form=form, input=inp,
                                            chroms=chroms, n_loci=n_loci, counts=cnt, threshold=thr)
                                rec.case(1, int(len(exp) >= 2))
                                if not exp:
                                    if st == "ok":
                                        rec.violation("extract_loci:multi_returns_rows_when_none_expected", case, observed=list(val[0].shape))
                                    continue
                                if st != "ok":
                                    rec.violation("extract_loci:multi_raises", case, observed=val)
                                    continue
                                X, y = val
                                eX = numpy.stack([e[1] for e in exp])
                                ey = numpy.stack([e[2] for e in exp])
                                if tuple(X.shape) != eX.shape or not numpy.array_equal(X.numpy(), eX):
                                    rec.violation("extract_loci:multi_wrong_rows_or_order", case,
                                                  expected=[(e[0][1], e[0][2], e[0][3]) for e in exp], observed=list(X.shape))
                                    continue
                                if not numpy.array_equal(y.numpy().astype(numpy.float32), ey):
                                    rec.violation("extract_loci:multi_wrong_signal", case)
                                    continue
                                rec.observe(case["sets"], chroms, n_loci, cnt, int(X.sum()))
        # in_signals (third return value: in_window-sized signal), target_idx for the count filters, custom alphabet / ignore
        deep = [r for r in interior if all(_expect(r[0], r[2], r[3], w1, w2, 1)[0] == "keep" for (w1, w2) in ((5, 4), (4, 5)))]
        rs2 = [r for r in deep if r[0] == 0][:6] + [r for r in deep if r[0] == 2][:4]
        df = pandas.DataFrame(dict(chrom=[r[1] for r in rs2], start=[r[2] for r in rs2], end=[r[3] for r in rs2]))
        for inp in ("file", "dict", "file+dict", "dict+file"):
            for jit in (0, 1):
                for iw2, ow2 in ((3, 2), (2, 3), (4, 4), (5, 1)):
                    for tidx in (0, 1):
                        # every track of a list is read from what it is: bigWig files and in-memory dictionaries may be mixed in one list
                        a = {"file": dict(sequences=fa, signals=bws, in_signals=bws[::-1]),
                             "dict": dict(sequences=dseq, signals=dsig, in_signals=dsig[::-1]),
                             "file+dict": dict(sequences=fa, signals=[bws[0], dsig[1]], in_signals=[bws[1], dsig[0]]),
                             "dict+file": dict(sequences=dseq, signals=[dsig[0], bws[1]], in_signals=[dsig[1], bws[0]])}[inp]
                        exp = []
                        # the count threshold is the median total of the loci: some loci in the middle of the table are rejected by the
                        # filter, and every returned tensor (sequence, signal, control signal) must drop exactly those rows
                        tots = sorted(float(_expect(r[0], r[2], r[3], iw2, ow2, jit)[2][tidx].sum()) for r in rs2
                                      if _expect(r[0], r[2], r[3], iw2, ow2, jit)[0] == "keep")
                        thr = tots[len(tots) // 2]
                        n_rejected = 0
                        for r in rs2:
                            cls, eseq, esig = _expect(r[0], r[2], r[3], iw2, ow2, jit)
                            if cls != "keep":
                                continue
                            tot = float(esig[tidx].sum())
                            if (tidx == 0 and tot < thr) or (tidx == 1 and tot > thr):
                                n_rejected += 1
                                continue
                            mid = r[2] + (r[3] - r[2]) // 2
                            lo_i, hi_i = mid - iw2 // 2 - jit, mid + iw2 // 2 + jit + iw2 % 2
                            ins = numpy.array([[_sig(r[0], p_, t) for p_ in range(lo_i, hi_i)] for t in (1, 0)], dtype=numpy.float32)
                            exp.append((eseq, esig, ins))
                        kw = dict(min_counts=thr) if tidx == 0 else dict(max_counts=thr)
                        st, val = call(extract_loci, df, in_window=iw2, out_window=ow2, max_jitter=jit, target_idx=tidx, **a, **kw)
                        case = dict(fn="extract_loci", input=inp, in_window=iw2, out_window=ow2, max_jitter=jit, target_idx=tidx, in_signals=True,
                                    loci=[(r[1], r[2], r[3]) for r in rs2], threshold=thr)
                        rec.case(1, int(n_rejected > 0))
                        rec.count("loci_rejected_by_count_filter_with_in_signals", n_rejected)
                        if st != "ok" or len(val) != 3:
                            rec.violation("extract_loci:in_signals_raises", case, observed=val if st != "ok" else len(val))
                            continue
                        X, y, z = val
                        if len(exp) != X.shape[0] or not numpy.array_equal(X.numpy(), numpy.stack([e[0] for e in exp])) or \
                                not numpy.array_equal(y.numpy().astype(numpy.float32), numpy.stack([e[1] for e in exp])):
                            rec.violation("extract_loci:wrong_rows_with_in_signals_or_target_idx", case, expected=len(exp), observed=list(X.shape))
                            continue
                        if tuple(z.shape) != (len(exp),) + exp[0][2].shape or not numpy.array_equal(z.numpy().astype(numpy.float32), numpy.stack([e[2] for e in exp])):
                            rec.violation("extract_loci:wrong_in_signal", case, expected=exp[0][2], observed=z[0])
        # custom alphabet order and ignore characters (FASTA input)
        st, X = call(extract_loci, df, fa, in_window=4, alphabet=["T", "G", "C", "A"], ignore=["N"])
        rec.case(1, 1)
        if st == "ok":
            exp = []
            for r in rs2:
                cls, eseq, _ = _expect(r[0], r[2], r[3], 4, 1, 0, with_signal=False)
                if cls == "keep":
                    exp.append(eseq[::-1])
            if not numpy.array_equal(X.numpy(), numpy.stack(exp)):
                rec.violation("extract_loci:custom_alphabet_wrong", dict(fn="extract_loci", alphabet="TGCA"))
        else:
            rec.violation("extract_loci:custom_alphabet_raises", dict(fn="extract_loci", alphabet="TGCA"), observed=X)
        # call history on ONE path: the FASTA (and bigWig) at a path is replaced by a different genome between two calls; the second call
        # must return what the file contains now (an index or handle kept from the first call must not be reused)
        import pyBigWig
        import time as _time
        hp = os.path.join(d, "hist.fa")
        genomes = [[("h1", "ACGTACGTACGTTTGACC"), ("h2", "GGGCATTA")], [("h1", "TTGACCA"), ("h2", "CATCATGGATTACAGGAT")], [("h1", "ACGTACGTACGTTTGACC"), ("h2", "GGGCATTA")]]
        for gi, g in enumerate(genomes):
            with open(hp, "w") as fh:
                for n_, s_ in g:
                    fh.write(">%s\n%s\n" % (n_, s_))
            t_ = _time.time() + 10 * (gi + 1)
            os.utime(hp, (t_, t_))                       # strictly newer than whatever the previous call may have written next to it
            rows = [(n_, st_, st_ + 2) for n_, s_ in g for st_ in range(0, len(s_) - 1, 3) if st_ + 1 + 2 != len(s_)]    # no locus touching the end
            dfh = pandas.DataFrame(rows, columns=["chrom", "start", "end"])
            st, Xh = call(extract_loci, dfh, hp, in_window=4)
            exp = []
            for (n_, a_, b_) in rows:
                s_ = dict(g)[n_]
                mid = a_ + (b_ - a_) // 2
                if mid - 2 < 0 or mid + 2 >= len(s_):
                    if mid - 2 >= 0 and mid + 2 == len(s_):
                        exp = None      # a touching locus: either outcome allowed -> skip this genome's comparison
                        break
                    continue
                exp.append(_ohe_np(s_[mid - 2:mid + 2]))
            rec.case(1, 1)
            case = dict(fn="extract_loci", history="FASTA at the same path rewritten", step=gi, genome=g)
            if exp is None:
                continue
            if st != "ok" or tuple(Xh.shape) != (len(exp), 4, 4) or not numpy.array_equal(Xh.numpy(), numpy.stack(exp)):
                rec.violation("extract_loci:stale_file_state_across_calls", case, expected=len(exp), observed=Xh if st != "ok" else list(Xh.shape))
        # library default windows (in_window=2114, out_window=1000) and a realistic jitter on kilobase chromosomes
        rsd = numpy.random.RandomState(41 + seed)
        big = [("chrL", "".join(rsd.choice(list("ACGTacgtN"), size=6001, p=[.2, .2, .2, .2, .04, .04, .04, .04, .04]))),
               ("chrS", "".join(rsd.choice(list("ACGT"), size=3100)))]
        bfa = os.path.join(d, "big.fa")
        with open(bfa, "w") as fh:
            for n_, s_ in big:
                fh.write(">%s\n" % n_)
                for i_ in range(0, len(s_), 60):
                    fh.write(s_[i_:i_ + 60] + "\n")
        bsig = {n_: (numpy.arange(len(s_)) % 977).astype(numpy.float32) for n_, s_ in big}
        bseq = {n_: _ohe_np(s_) for n_, s_ in big}
        for jit in (0, 128):
            half = 2114 // 2 + jit
            mids = [half + 1, half + 2, 3000, 6001 - half - 2, 6001 - half - 1, half - 5, 6001 - half + 7]
            rows = [("chrL", m_ - 10, m_ + 10) for m_ in mids] + [("chrS", 1500, 1600), ("chrS", 1549, 1551), ("chrS", 10, 30)]
            dfb = pandas.DataFrame(rows, columns=["chrom", "start", "end"])
            for inp in ("file", "dict"):
                a = dict(sequences=bfa, signals=[bsig]) if inp == "file" else dict(sequences=bseq, signals=[bsig])
                kwj = dict(max_jitter=jit) if jit else {}
                st, val = call(extract_loci, dfb, **a, **kwj)
                expX, expy = [], []
                for (n_, s0, e0) in rows:
                    s_ = dict(big)[n_]
                    mid = s0 + (e0 - s0) // 2
                    lo, hi = mid - 1057 - jit, mid + 1057 + jit
                    if lo < 0 or hi >= len(s_):
                        continue
                    expX.append(_ohe_np(s_[lo:hi]))
                    expy.append(bsig[n_][mid - 500 - jit:mid + 500 + jit][None])
                rec.case(1, 1)
                case = dict(fn="extract_loci", input=inp, windows="defaults 2114/1000", max_jitter=jit, loci=rows)
                if st != "ok" or not numpy.array_equal(val[0].numpy(), numpy.stack(expX)) or not numpy.array_equal(val[1].numpy().astype(numpy.float32), numpy.stack(expy)):
                    rec.violation("extract_loci:default_windows_wrong", case, expected=len(expX), observed=val if st != "ok" else list(val[0].shape))
        rec.sample(dict(kind="multi", locus_sets=[[len(S) for S in c] for c in sets_cfgs], chroms="None / subsets", n_loci="None,1,2,4",
                        counts="none/min/max at the exact window sum"))
    finally:
        shutil.rmtree(d, ignore_errors=True)


# ------------------------------------------------------------------------------------------------ read_meme
PAL = [["0.250000", "0.250000", "0.250000", "0.250000"], ["0.970000", "0.010000", "0.010000", "0.010000"],
       ["0.000000", "0.500000", "0.500000", "0.000000"], ["0.1", "0.2", "0.3", "0.4"], ["1.000000", "0.000000", "0.000000", "0.000000"],
       ["0.123457", "0.376543", "0.200000", "0.300000"]]


def _meme_text(motifs, crlf, final_nl, trail_sp, header_blank, sep="  ", log_odds_block=False):
    """motifs: list of (name, width, url, blanks_after, blank_before_matrix)"""
    nl = "\r\n" if crlf else "\n"
    lines = ["MEME version 4", "", "ALPHABET= ACGT", "", "strands: + -", "", "Background letter frequencies (from uniform background):",
             "A 0.25000 C 0.25000 G 0.25000 T 0.25000"] + [""] * header_blank
    exp = []
    for mi, (name, width, url, blanks, bbm) in enumerate(motifs):
        lines.append("MOTIF " + name)
        lines.extend([""] * bbm)
        if log_odds_block:
            # the layout the MEME suite itself writes: a log-odds block precedes the letter-probability block of every motif
            lines.append("log-odds matrix: alength= 4 w= %d E= 1.2e-003" % width)
            for r in range(width):
                lines.append("  " + "  ".join("%d" % v for v in [(-131 + 37 * r + 11 * j * (mi + 1)) % 250 - 100 for j in range(4)]))
            lines.append("")
        lines.append("letter-probability matrix: alength= 4 w= %d nsites= 20 E= 0" % width)
        rows = []
        for r in range(width):
            vals = PAL[(mi * 3 + r * 2 + width) % len(PAL)]
            rows.append([float(v) for v in vals])
            lines.append(("  " if r % 2 else " ") + sep.join(vals) + ("  " if trail_sp else ""))
        if url:
            lines.append("URL http://example.org/%s" % name.split()[0])
        lines.extend([""] * blanks)
        exp.append((name, numpy.array(rows).T))
    text = nl.join(lines)
    if final_nl:
        text += nl
    return text, exp


def run_meme(rec, sh, tier, seed):
    from tangermeme.io import read_meme
    d = env.scratch_dir("c16meme")
    try:
        n = sh["n"]
        per = [(w, url, bl) for w in (1, 2, 3) for url in (False, True) for bl in (0, 1, 2)]
        if n >= 3 and tier == "quick" or n >= 4:
            per = [(w, url, bl) for (w, url, bl) in per if (w, url, bl) in ((1, False, 0), (2, True, 0), (3, False, 1), (2, False, 2), (1, True, 1))]
        path = os.path.join(d, "m.meme")
        states = set()
        for combo in itertools.product(per, repeat=n):
            for crlf, final_nl, trail_sp in itertools.product((False, True), repeat=3):
                for header_blank, bbm in ((1, 0), (0, 1), (2, 0)):
                    if (header_blank, bbm) != (1, 0) and (crlf or trail_sp):
                        continue
                    motifs = [("M%d_%s alt%d" % (i, "abc"[i % 3], i) if i % 2 == 0 else "MA%04d.1" % i, w, url, bl, bbm)
                              for i, (w, url, bl) in enumerate(combo)]
                    text, exp = _meme_text(motifs, crlf, final_nl, trail_sp, header_blank)
                    with open(path, "w", newline="") as fh:
                        fh.write(text)
                    # layout classes for violation signatures (known-finding granularity)
                    tight = any((not url) and bl == 0 for (w, url, bl) in combo[:-1])
                    last = combo[-1]
                    eof_after_matrix = (not last[1]) and last[2] == 0 and True
                    kind = ("next_MOTIF_directly_after_matrix" if tight else "") + ("+eof_directly_after_matrix" if eof_after_matrix and not (final_nl and False) else "")
                    kind = kind.strip("+") or "spaced"
                    for n_motifs in (None, 1, n):
                        case = dict(fn="read_meme", layout=[dict(width=w, url=url, blank_lines_after=bl) for (w, url, bl) in combo], crlf=crlf,
                                    final_newline=final_nl, trailing_spaces=trail_sp, header_blank=header_blank, blank_before_matrix=bbm,
                                    n_motifs=n_motifs)
                        st, got = call(read_meme, path, n_motifs=n_motifs)
                        rec.case(1, int(n >= 2))
                        rec.count("transitions", len(text.splitlines()))
                        e = exp if n_motifs is None else exp[:n_motifs]
                        if st != "ok":
                            rec.violation("read_meme:raises:" + kind, case, observed=got)
                            continue
                        names = list(got.keys())
                        if names != [x[0] for x in e]:
                            rec.violation("read_meme:motifs_missing_or_misordered:" + kind, case, expected=[x[0] for x in e], observed=names)
                            continue
                        bad = False
                        for (nm, pw) in e:
                            g_ = got[nm]
                            if tuple(g_.shape) != pw.shape or g_.dtype != torch.float64 or not numpy.array_equal(g_.numpy(), pw):
                                rec.violation("read_meme:wrong_probabilities:" + kind, dict(case, motif=nm), expected=pw, observed=g_)
                                bad = True
                                break
                        if not bad:
                            states.add((tuple(combo), crlf, final_nl, trail_sp, header_blank, bbm))
                            rec.observe(names, float(sum(x[1].sum() for x in e)))
        if n == 2:
            # characters that Python counts as white space or as line boundaries in SOME of its APIs (form feed, vertical tab, the
            # information separators, NEL, the Unicode line / paragraph separators), used between the numbers of a row and inside the
            # free-text part of a motif name: a line of the file ends at a newline and nowhere else
            for crlf in (False, True):
                motifs = [("M0 alt0", 2, False, 1, 0), ("MA0001.1", 3, True, 0, 0), ("M2", 1, False, 0, 0)]
                text, exp = _meme_text(motifs, crlf, True, False, 1, log_odds_block=True)
                with open(path, "w", newline="") as fh:
                    fh.write(text)
                case = dict(fn="read_meme", layout="3 motifs, each with a log-odds block before its letter-probability block", crlf=crlf)
                st, got = call(read_meme, path)
                rec.case(1, 1)
                if st != "ok":
                    rec.violation("read_meme:raises:log_odds_block", case, observed=got)
                elif list(got.keys()) != [x[0] for x in exp] or any(tuple(got[nm].shape) != pw.shape or not numpy.array_equal(got[nm].numpy(), pw) for nm, pw in exp):
                    rec.violation("read_meme:wrong_probabilities:log_odds_block", case, expected=[x[0] for x in exp], observed={k: v.tolist() for k, v in got.items()})
            for sep in ("\t", "\x0c", " \x0b ", "\x1c", " \x1d", "\x1e ", "\x85", "\u2028", " \u2029 "):
                for crlf in (False, True):
                    motifs = [("M0 report%spage 2" % sep, 2, False, 1, 0), ("M1 report%spage 3" % sep, 3, True, 0, 0), ("MA0002.1", 1, False, 0, 0)]
                    text, exp = _meme_text(motifs, crlf, True, False, 1, sep=sep)
                    with open(path, "w", newline="", encoding="utf-8") as fh:
                        fh.write(text)
                    case = dict(fn="read_meme", layout="3 motifs", crlf=crlf, separator=repr(sep), names=[m[0] for m in motifs])
                    st, got = call(read_meme, path)
                    rec.case(1, 1)
                    if st != "ok":
                        rec.violation("read_meme:raises:unusual_whitespace", case, observed=got)
                        continue
                    if list(got.keys()) != [x[0] for x in exp]:
                        rec.violation("read_meme:motifs_missing_or_misordered:unusual_whitespace", case, expected=[x[0] for x in exp], observed=list(got.keys()))
                        continue
                    for (nm, pw) in exp:
                        if tuple(got[nm].shape) != pw.shape or not numpy.array_equal(got[nm].numpy(), pw):
                            rec.violation("read_meme:wrong_probabilities:unusual_whitespace", dict(case, motif=nm), expected=pw, observed=got[nm])
                            break
        rec.count("states", len(states))
        rec.sample(dict(kind="meme", n_motifs=n, per_motif_options=len(per), file_level="crlf x final newline x trailing spaces x header/matrix blank lines",
                        example=text[:400]))
    finally:
        shutil.rmtree(d, ignore_errors=True)


def run_shard(sh, tier, seed):
    rec = Recorder(PID, sh["name"])
    if sh["kind"] == "loci":
        run_loci(rec, sh, tier, seed)
    elif sh["kind"] == "multi":
        run_multi(rec, tier, seed)
    else:
        run_meme(rec, sh, tier, seed)
    return rec.result()


def replay(v):
    c = v["case"]
    rec = Recorder(PID, "replay")
    if c["fn"] == "read_meme":
        run_meme(rec, dict(n=len(c["layout"])), "thorough", 0)
    elif "sets" in c:
        run_multi(rec, "thorough", 0)
    else:
        run_loci(rec, dict(input=c["input"], iw=c["in_window"], W=max(c["out_window"], 4)), "thorough", 0)
    hit = [x for x in rec.violations if x["sig"] == v["sig"]]
    return (not hit), "replayed family: %d violations with signature %s%s" % (
        rec.viol_sigs.get(v["sig"], 0), v["sig"], ("\nfirst: %s" % hit[0]) if hit else "")
