"""C03 - predict is transparent to batching and keeps extra arguments aligned.

Exhaustive over (n examples, batch_size 1..n+3, 0..3 extra args, output kind, model kind).  The
model is an exact-integer probe that records, for every forward call, its training flag, the grad
mode and the ids of the rows it receives in X and in every arg.
"""
import collections
import copy

import numpy
import torch

from mc.common import call
from mc.report import Recorder

PID = "C03"
LEVEL = "exploration"
RULE = ("cases = (n, batch_size, number of extra args, output kind, model kind) enumerated completely; every example "
        "carries a unique id in X and in each arg; non-trivial = batch_size < n (more than one forward call) or an "
        "extra argument present; mismatching-args cases must raise")
ASSUMPTIONS = ["CPU only (device='cpu')", "models are deterministic in eval mode; integer-valued weights so equality is exact"]

L = 3


def bound(tier):
    return "n in 1..12" if tier == "quick" else "n in 1..40"


def shards(tier, seed):
    nmax = 12 if tier == "quick" else 40
    out = []
    for mk in ("affine", "bn_dropout", "paramfree"):
        for ok in ("tensor", "tuple2", "list3", "named2", "view2", "gradtrack", "reused_list"):
            for lo in range(1, nmax + 1, 10):
                out.append(dict(name="%s/%s/n%d-%d" % (mk, ok, lo, min(lo + 9, nmax)), model=mk, out=ok,
                                ns=list(range(lo, min(lo + 9, nmax) + 1)), weight=lo * lo))
    return out


Heads = collections.namedtuple("Heads", ["profile", "counts"])


def _map_out(o, f):
    if isinstance(o, torch.Tensor):
        return f(o)
    if hasattr(o, "_fields"):
        return type(o)(*[f(t) for t in o])
    return type(o)(f(t) for t in o)


def add_root_hooks(model):
    """User hooks on the top-level module: model(x) runs them, so 'the concatenation of model(X[i], ...)' includes them."""
    model.register_forward_pre_hook(lambda m, inp: (inp[0] * 3,) + tuple(inp[1:]))
    model.register_forward_hook(lambda m, inp, out: _map_out(out, lambda t: t * 2 + 1))
    model.hooked = True
    return model


class Probe(torch.nn.Module):
    def __init__(self, kind, out, seed, L=L):
        super().__init__()
        self.kind, self.out, self.L = kind, out, L
        g = torch.Generator().manual_seed(100 + seed)
        if kind != "paramfree":
            self.lin = torch.nn.Linear(4 * L, 3).double()
            with torch.no_grad():
                self.lin.weight.copy_(torch.randint(-3, 4, (3, 4 * L), generator=g).double())
                self.lin.bias.copy_(torch.randint(-3, 4, (3,), generator=g).double())
        else:
            self.register_buffer("pos", torch.arange(3), persistent=False)      # an integer buffer: it does not decide the dtype of X
            self.register_buffer("W", torch.randint(-3, 4, (3, 4 * L), generator=g).double(), persistent=False)
        if kind == "bn_dropout":
            self.bn = torch.nn.BatchNorm1d(3).double()
            with torch.no_grad():
                self.bn.running_mean.copy_(torch.tensor([1.0, -2.0, 0.5]))
                self.bn.running_var.copy_(torch.tensor([4.0, 0.25, 1.0]))
                self.bn.weight.copy_(torch.tensor([2.0, 1.0, -1.0]))
                self.bn.bias.copy_(torch.tensor([0.0, 1.0, 2.0]))
            self.drop = torch.nn.Dropout(0.5)
        self.log = []

    def forward(self, X, *args):
        ids = (X.double().argmax(1) * (4 ** torch.arange(self.L))).sum(1).long().tolist()
        aids = [a.reshape(a.shape[0], -1)[:, 0].long().tolist() for a in args]
        self.log.append(dict(training=any(m.training for m in self.modules()), grad=torch.is_grad_enabled(), ids=ids, aids=aids,
                             x_dtype=str(X.dtype)))
        x = X.double().reshape(X.shape[0], -1)
        if self.kind == "paramfree":
            y = x @ self.W.T
        else:
            y = self.lin(x)
        if self.kind == "bn_dropout":
            y = self.drop(self.bn(y))
        for k, a in enumerate(args):
            y = y + (k + 1) * a.double().reshape(a.shape[0], -1).sum(1, keepdim=True)
        if self.out == "tensor":
            return y
        if self.out == "tuple2":
            return y, (y * 2).unsqueeze(-1)
        if self.out == "gradtrack":
            # a model that re-enables autograd locally (prediction plus a gradient-times-input track): legal under no_grad
            with torch.enable_grad():
                xg = X.double().detach().requires_grad_(True)
                yg = self.lin(xg.reshape(xg.shape[0], -1)) if self.kind != "paramfree" else xg.reshape(xg.shape[0], -1) @ self.W.T
                (gx,) = torch.autograd.grad(yg[:, 0].sum(), xg)
            return y, (gx * X.double()).sum(dim=1).detach()
        if self.out == "reused_list":
            # the model hands back ONE list object that it clears and refills on every call
            if not hasattr(self, "_outs"):
                self._outs = []
            self._outs.clear()
            self._outs.extend([y, (y * 2).unsqueeze(-1)])
            return self._outs
        if self.out == "view2":
            return y, X[:, :, 1:]                    # a view of the input the model was handed (cropped pass-through head)
        if self.out == "named2":
            return Heads(profile=y, counts=(y * 2).unsqueeze(-1))
        return [y, y[:, :1] - 1, y.reshape(-1, 3, 1).repeat(1, 1, 2)]


def make_inputs(n, nargs, L=L):
    ids = numpy.arange(n) + 3
    codes = numpy.stack([(ids // (4 ** j)) % 4 for j in range(L)], axis=1)
    X = torch.zeros(n, 4, L, dtype=torch.int8)
    for i in range(n):
        for j in range(L):
            X[i, codes[i, j], j] = 1
    shapes = [(n, 1), (n,), (n, 2, 2)]
    args = []
    for k in range(nargs):
        a = torch.zeros(shapes[k], dtype=torch.float64)
        base = (torch.arange(n, dtype=torch.float64) + 1000 * (k + 1))
        a += base.reshape((n,) + (1,) * (len(shapes[k]) - 1))
        args.append(a)
    return X, args, ids.tolist()


def check_one(rec, model0, n, b, nargs, seed, as_tuple=False, layout="contiguous"):
    from tangermeme.predict import predict
    L = model0.L
    X, args, ids = make_inputs(n, nargs, L)
    if layout == "strided":
        # the same values as non-contiguous views (every second row of a larger buffer / a transposed buffer)
        big = torch.zeros(2 * n, 4, L, dtype=X.dtype)
        big[::2] = X
        X = big[::2]
        args = [torch.stack([a, a + 7], dim=1)[:, 0] if a.ndim >= 1 else a for a in args]
    Xc, argsc = X.clone(), [a.clone() for a in args]
    model = copy.deepcopy(model0)
    # mode history of the model before the call: everything in training mode / root switched to eval but a sub-module put back
    # into training mode (e.g. a freshly swapped-in head) / root in training mode with eval sub-modules
    mode = ("all_train", "root_eval_sub_train", "root_train_sub_eval")[(n + b + nargs) % 3]
    if mode == "all_train":
        model.train()
    elif mode == "root_eval_sub_train":
        model.eval()
        for m in list(model.modules())[1:]:
            m.train()
    else:
        model.eval()
        model.training = True
    model.log = []
    case = dict(fn="predict", n=n, batch_size=b, n_args=nargs, out=model.out, model=model.kind, mode_before=mode, layout=layout,
                root_hooks=bool(getattr(model0, "hooked", False)))
    a_in = None if nargs == 0 else (tuple(args) if as_tuple else list(args))
    st, y = call(predict, model, X, args=a_in, batch_size=b, device="cpu")
    rec.case(1, int(b < n or nargs > 0))
    if st != "ok":
        rec.violation("predict:raises", case, observed=y)
        return
    # reference: one example at a time on a pristine copy in eval mode
    ref = copy.deepcopy(model0).eval()
    outs = []
    with torch.no_grad():
        for i in range(n):
            o = ref(X[i:i + 1].double(), *[a[i:i + 1] for a in args])
            outs.append([o] if isinstance(o, torch.Tensor) else list(o))
    exp = [torch.cat([o[k] for o in outs]) for k in range(len(outs[0]))]
    got = [y] if isinstance(y, torch.Tensor) else list(y)
    if (model.out == "tensor") != isinstance(y, torch.Tensor) or len(got) != len(exp):
        rec.violation("predict:wrong_output_structure", case, expected=len(exp), observed=repr(type(y)))
        return
    for k in range(len(exp)):
        if tuple(got[k].shape) != tuple(exp[k].shape):
            rec.violation("predict:wrong_shape", dict(case, output=k), expected=list(exp[k].shape), observed=list(got[k].shape))
            return
        if not torch.equal(got[k].double(), exp[k]):
            bad = int((got[k].double() != exp[k]).reshape(n, -1).any(1).nonzero()[0])
            rec.violation("predict:wrong_value", dict(case, output=k, row=bad), expected=exp[k][bad], observed=got[k][bad])
            return
        if got[k].requires_grad:
            rec.violation("predict:output_requires_grad", dict(case, output=k))
    # forward-call log: eval mode, no grad, aligned consecutive windows covering 0..n-1 in order
    # the model is handed X in the dtype of its parameters, or - without parameters - exactly as the caller stored it
    want = str(X.dtype) if model.kind == "paramfree" else "torch.float64"
    if getattr(model0, "hooked", False):
        want = None       # the root pre-hook multiplies X (type promotion rules apply)
    for c in model.log:
        if want is not None and c["x_dtype"] != want:
            rec.violation("predict:input_dtype_changed", case, expected=want, observed=c["x_dtype"])
            break
    seen = []
    for c in model.log:
        if c["training"]:
            rec.violation("predict:model_in_training_mode", case)
            break
        if c["grad"]:
            rec.violation("predict:grad_enabled", case)
            break
        for aid, k in zip(c["aids"], range(nargs)):
            if [a - 1000 * (k + 1) + 3 for a in aid] != c["ids"]:
                rec.violation("predict:args_misaligned", dict(case, arg=k), expected=c["ids"], observed=aid)
                return
        if len(c["ids"]) > max(1, min(b, n)):
            rec.violation("predict:batch_larger_than_batch_size", case, observed=len(c["ids"]))
        seen.extend(c["ids"])
    if seen != ids:
        rec.violation("predict:rows_not_covered_in_order", case, expected=ids, observed=seen)
    if not torch.equal(X, Xc) or any(not torch.equal(a, ac) for a, ac in zip(args, argsc)):
        rec.violation("predict:input_modified", case)
    sd0, sd1 = model0.state_dict(), model.state_dict()
    for k_ in sd0:
        if not torch.equal(sd0[k_], sd1[k_]):
            rec.violation("predict:model_state_changed", dict(case, key=k_))
    rec.observe(n, b, nargs, float(got[0].sum()))
    rec.outcome((len(model.log), n, min(b, n)))


def check_mismatch(rec, model0, n, nargs, which, delta):
    from tangermeme.predict import predict
    X, args, ids = make_inputs(n, nargs, model0.L)
    m = n + delta if delta != "one" else 1
    if m == n or m < 1:
        return
    _, bad, _ = make_inputs(m, nargs, model0.L)
    args = list(args)
    args[which] = bad[which]
    model = copy.deepcopy(model0)
    st, y = call(predict, model, X, args=args, batch_size=4, device="cpu")
    rec.case(1, 1)
    if st == "ok":
        rec.violation("predict:accepts_mismatched_args", dict(fn="predict", n=n, n_args=nargs, bad_arg=which, bad_len=m,
                                                               model=model.kind, out=model.out), expected="raise")


def run_shard(sh, tier, seed):
    rec = Recorder(PID, sh["name"])
    model0 = Probe(sh["model"], sh["out"], seed)
    for n in sh["ns"]:
        for b in range(1, n + 4):
            for nargs in range(0, 4):
                check_one(rec, model0, n, b, nargs, seed, as_tuple=(b + nargs) % 2 == 0)
        for nargs in (1, 2, 3):
            for which in range(nargs):
                for delta in (-1, 1, "one"):
                    check_mismatch(rec, model0, n, nargs, which, delta)
        if n in (1, 5, 12, 33):
            check_one(rec, model0, n, 10 ** 6, 1, seed)
        if n % 5 == 0:
            for b in (1, 3, n):
                check_one(rec, model0, n, b, 2, seed, layout="strided")
        if n % 4 == 1:
            hooked = add_root_hooks(Probe(sh["model"], sh["out"], seed))
            for b in (1, 2, n, n + 1):
                for nargs in (0, 2):
                    check_one(rec, hooked, n, b, nargs, seed)
    if sh["ns"][0] == 1:
        # sizes beyond 8-bit counters and around the default batch size of 32 (ids encoded in 5 positions: 1024 values)
        big = Probe(sh["model"], sh["out"], seed, L=5)
        for n in (31, 32, 33, 64, 127, 128, 129, 255, 256, 257, 300):
            for b in (1, 31, 32, 33, 127, 128, 255, 256, 1000):
                if b == 1 and n > 64:
                    continue
                check_one(rec, big, n, b, 1 + (n + b) % 2, seed)
            if n in (33, 257):
                from tangermeme.predict import predict
                X, args, ids = make_inputs(n, 1, 5)
                m = copy.deepcopy(big)
                m.log = []
                st, y = call(predict, m, X, args=args, device="cpu")          # default batch_size
                rec.case(1, 1)
                if st != "ok" or [len(c["ids"]) for c in m.log] != [32] * (n // 32) + ([n % 32] if n % 32 else []):
                    rec.violation("predict:default_batch_size_not_32", dict(fn="predict", n=n), observed=[len(c["ids"]) for c in m.log] if st == "ok" else y)
    if sh["ns"][0] == 1 and sh["out"] == "tensor":
        # degenerate but legal shapes: sequences of length 0 and 1 through a pooling model with a per-example argument
        from tangermeme.predict import predict

        class Pool(torch.nn.Module):
            def forward(self, X, a):
                return X.double().sum(dim=(1, 2))[:, None] + a.double()
        for L0 in (0, 1):
            for n in (1, 3, 5):
                X0 = torch.zeros(n, 4, L0, dtype=torch.float32)
                if L0:
                    X0[torch.arange(n), torch.arange(n) % 4, 0] = 1
                a0 = torch.arange(n, dtype=torch.float64)[:, None] * 10 + 3
                for b in (1, 2, 7):
                    st, y = call(predict, Pool(), X0, args=(a0,), batch_size=b, device="cpu")
                    rec.case(1, 1)
                    exp = X0.double().sum(dim=(1, 2))[:, None] + a0
                    if st != "ok" or tuple(y.shape) != (n, 1) or not torch.equal(y.double(), exp):
                        rec.violation("predict:degenerate_length", dict(fn="predict", n=n, batch_size=b, length=L0, model="pooling"), expected=exp, observed=y)
    rec.sample(dict(model=sh["model"], out=sh["out"], n=sh["ns"], batch_size="1..n+3", n_args="0..3"))
    return rec.result()


def replay(v):
    c = v["case"]
    rec = Recorder(PID, "replay")
    model0 = Probe(c["model"], c["out"], 0)
    if c.get("root_hooks"):
        add_root_hooks(model0)
    if "bad_arg" in c:
        for delta in (-1, 1, "one"):
            check_mismatch(rec, model0, c["n"], c["n_args"], c["bad_arg"], delta)
    else:
        check_one(rec, model0, c["n"], c["batch_size"], c["n_args"], 0, as_tuple=(c["batch_size"] + c["n_args"]) % 2 == 0)
    return (not rec.violations), "predict(n=%s, batch_size=%s, n_args=%s, %s/%s): %s" % (
        c["n"], c.get("batch_size"), c["n_args"], c["model"], c["out"], rec.violations[:1] or "ok")
