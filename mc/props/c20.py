"""C20 - greedy design never worsens the loss and takes the best substitution each step.

Model checking of the design procedure as a transition system: a state is the current sequence, one
transition is one REAL call greedy_substitution(model, X, motifs, y, max_iter=1, tol=0).  Explicit-state
BFS from every start sequence in the domain until fixpoint; every transition is checked against the
brute-force step relation (all motifs x all fitting positions, computed with string edits and direct
model calls); then for every reachable state the multi-step calls (max_iter x tol grid) are checked
against the composition of single steps with the documented stopping rule.
"""
import collections
import itertools

import numpy
import torch

from mc.common import call, decode, ohe
from mc.report import Recorder

PID = "C20"
LEVEL = "model_checking"
REDUCED = {'quick': 'multi-step calls from every third reachable state'}
RULE = ("states = sequences reachable from the start sequences through real single greedy steps; transitions = real "
        "greedy_substitution(max_iter=1, tol=0) calls, each checked against the brute-force step relation; "
        "traces validated = multi-step calls (max_iter, tol) on the real code compared with the composition of "
        "single steps; non-trivial = transitions where some substitution strictly improves the loss")
ASSUMPTIONS = ["exact-integer float32 models (losses are exact, ties are exact ties; any tie is accepted)",
               "args=None (a single-example args tuple cannot be broadcast to the tiled candidates: documented limitation)", "CPU only"]
A = 4
ALPH = "ACGT"


def bound(tier):
    return ("L=6: all 2-letter start sequences + 8 four-letter ones; 6 motif sets x 2 models, output mask on/off for every other motif set" if tier == "quick" else
            "L in {6,8}: all 2-letter start sequences + 8 four-letter ones; 9 motif sets x 3 models x mask on/off; batch sizes {1,3,32}")


class WModel(torch.nn.Module):
    def __init__(self, L, kind, seed):
        super().__init__()
        g = torch.Generator().manual_seed(31 + seed + L)
        self.kind = kind
        if kind == "linear":
            self.W = torch.randint(-3, 4, (3, A * L), generator=g).float()
        elif kind == "lastG":
            self.W = torch.zeros(3, A, L)
            self.W[0, 2, L - 3:] = 1.0      # counts G in the last 3 positions: best placement of GGG is the LAST fitting position
            self.W[1, 0, :2] = 1.0
            self.W[2, 3, :] = torch.arange(L).float() % 2
            self.W = self.W.reshape(3, -1)
        elif kind == "linear64":
            # a double-precision model whose integer weights carry perturbations of a few 1e-9: candidates that would tie otherwise differ
            # by less than single-precision resolution
            self.W = torch.randint(-3, 4, (3, A * L), generator=g).double() + 1e-9 * torch.randint(-5, 6, (3, A * L), generator=g).double()
        elif kind == "profile":
            # a profile head: output (batch, 3 tracks, L - 1 positions); the mask selects tracks
            self.convp = torch.nn.Conv1d(A, 3, 2)
            with torch.no_grad():
                self.convp.weight.copy_(torch.randint(-2, 3, self.convp.weight.shape, generator=g).float())
                self.convp.bias.copy_(torch.randint(-1, 2, (3,), generator=g).float())
        elif kind == "tail":
            # only the last 30 positions matter: every improving placement lies near the end of the sequence
            self.W = torch.zeros(3, A, L)
            self.W[0, 2, L - 3:] = 1.0
            self.W[1, 0, L - 30:L - 28] = 1.0
            self.W[2, 3, L - 20:L - 12:2] = 1.0
            self.W = self.W.reshape(3, -1)
        else:
            self.conv = torch.nn.Conv1d(A, 2, 2)
            with torch.no_grad():
                self.conv.weight.copy_(torch.randint(-2, 3, self.conv.weight.shape, generator=g).float())
                self.conv.bias.copy_(torch.randint(-1, 2, (2,), generator=g).float())

    def forward(self, X):
        if self.kind == "linear64":
            return X.double().flatten(1) @ self.W.T
        X = X.float()
        if self.kind in ("linear", "lastG", "tail"):
            return X.flatten(1) @ self.W.T
        if self.kind == "profile":
            return torch.relu(self.convp(X))
        h = torch.relu(self.conv(X))
        return torch.stack([h[:, 0].sum(1), h[:, 1].sum(1), h[:, 0, -1] - h[:, 1, 0]], dim=1)


MOTIF_SETS = [["GGG"], ["AC", "T"], ["G", "TT", "CAG"], ["ACGTAC"], ["TG", "GT"], ["C"],
              ["ACGTACGT"], ["GGGGG", "A"], ["CA", "AC", "GTG"]]


def shards(tier, seed):
    out = []
    Ls = (6,) if tier == "quick" else (6, 8)
    kinds = ("linear", "lastG") if tier == "quick" else ("linear", "lastG", "conv")
    msets = range(6) if tier == "quick" else range(len(MOTIF_SETS))
    for L in Ls:
        for kind in kinds:
            for mi in msets:
                if all(len(m) > L for m in MOTIF_SETS[mi]):
                    continue
                for masked in (((False, True) if mi % 2 == 0 else (False,)) if tier == "quick" else (False, True)):
                    out.append(dict(name="L%d/%s/m%d/%s" % (L, kind, mi, "mask" if masked else "nomask"), L=L, kind=kind,
                                    mi=mi, masked=masked, weight=2 ** L * len(MOTIF_SETS[mi])))
    out.append(dict(name="L40/linear/long", L=40, kind="linear", mi=-1, masked=False, long=True, weight=3000))
    out.append(dict(name="L33/conv/long", L=33, kind="conv", mi=-1, masked=True, long=True, weight=3000))
    # more than 1024 fitting positions per motif; the model rewards the LAST positions, so the optimum lies beyond position 1024
    out.append(dict(name="L1100/tail/long", L=1100, kind="tail", mi=-1, masked=False, long=True, weight=4000))
    out.append(dict(name="L1100/linear/long", L=1100, kind="linear", mi=-1, masked=True, long=True, weight=4000))
    # 3-D (profile) outputs, and a caller's own signed loss (the loss of a start sequence can be exactly 0 and still be improvable)
    for mi in (0, 2, 4):
        out.append(dict(name="L6/profile/m%d/mask" % mi, L=6, kind="profile", mi=mi, masked=True, weight=2 ** 6 * len(MOTIF_SETS[mi])))
    for kind, mi in (("lastG", 0), ("lastG", 2), ("linear", 4)):
        out.append(dict(name="L6/%s/m%d/signed_loss" % (kind, mi), L=6, kind=kind, mi=mi, masked=True, loss="signed", weight=2 ** 6 * len(MOTIF_SETS[mi])))
    for kind, mi in (("lastG", 1), ("linear", 2), ("linear", 5)):
        out.append(dict(name="L6/%s/m%d/pinball_loss" % (kind, mi), L=6, kind=kind, mi=mi, masked=mi != 2, loss="pinball", weight=2 ** 6 * len(MOTIF_SETS[mi])))
    for mi in (1, 2, 4):
        out.append(dict(name="L6/linear64/m%d/nomask" % mi, L=6, kind="linear64", mi=mi, masked=False, weight=2 ** 6 * len(MOTIF_SETS[mi])))
    # non-default alphabet orders (the rows of X follow the alphabet handed to the call; motifs are strings)
    for alph, kind, mi in (("ACTG", "lastG", 0), ("TGCA", "linear", 2), ("GATC", "linear", 4), ("ACTG", "linear", 1)):
        out.append(dict(name="L6/%s/m%d/alphabet_%s" % (kind, mi, alph), L=6, kind=kind, mi=mi, masked=False, alph=alph,
                        weight=2 ** 6 * len(MOTIF_SETS[mi])))
    return out


LOSSES = {
    "mse": None,                                              # the library default
    "signed": lambda y, y_hat: -(y * y_hat),                  # a caller's own element-wise loss that is not bounded below by 0
    # not symmetric in (target, prediction): under-prediction costs four times as much as over-prediction (pinball / quantile loss)
    "pinball": lambda y, y_hat: torch.where(y > y_hat, 0.8 * (y - y_hat), 0.2 * (y_hat - y)),
}


def _loss(y, yhat, mask, kind="mse"):
    d = (y[:, mask] - yhat[:, mask]) ** 2 if kind == "mse" else LOSSES[kind](y[:, mask].expand_as(yhat[:, mask]), yhat[:, mask])
    return d.reshape(d.shape[0], -1).mean(dim=1)


def _starts(L):
    two = [tuple(c) for c in itertools.product((0, 3), repeat=L)]
    four = [tuple((i * k + k // 2 + (i // 3)) % A for i in range(L)) for k in range(1, 9)]
    return two + four


def run_shard(sh, tier, seed):
    from tangermeme.design import greedy_substitution
    rec = Recorder(PID, sh["name"])
    L, kind = sh["L"], sh["kind"]
    ALPH = sh.get("alph", "ACGT")       # the alphabet order of the one-hot rows (handed to the call when it is not the default)
    akw = {} if ALPH == "ACGT" else dict(alphabet=list(ALPH))
    motifs = [m for m in MOTIF_SETS[sh["mi"]]] if sh["mi"] >= 0 else ["GGGCGGGC", "TTA", "C", "ACGTACG", "GATAA"]
    fit = [m for m in motifs if len(m) <= L]
    model = WModel(L, kind, seed)
    mask = torch.tensor([True, False, True]) if sh["masked"] else None
    m_ = mask if mask is not None else torch.ones(3, dtype=torch.bool)
    y = torch.tensor([[3.0, 1.0, 2.0]])
    if kind == "profile":
        y = (torch.arange(3 * (L - 1)).reshape(1, 3, L - 1) % 3).float()
    if kind == "linear64":
        y = y.double()
    lk = sh.get("loss", "mse")
    lkw = {} if lk == "mse" else dict(loss=LOSSES[lk])
    toolong = any(len(m) > L for m in motifs)

    def f(codes_list):
        with torch.no_grad():
            return model(ohe(numpy.array(codes_list), A))

    def loss_of(codes):
        return float(_loss(y, f([codes]), m_, lk)[0])

    def candidates(codes):
        out = []
        for mi, mot in enumerate(motifs):
            mc = [ALPH.index(c) for c in mot]
            for p in range(0, L - len(mc) + 1):
                out.append((mi, p, tuple(codes[:p]) + tuple(mc) + tuple(codes[p + len(mc):])))
        return out

    def impl_step(codes, **kw):
        X = ohe(numpy.array([codes]), A)
        Xc = X.clone()
        args = dict(max_iter=1, tol=0)
        args.update(akw)
        args.update(lkw)
        args.update(kw)
        st, val = call(greedy_substitution, model, X, motifs, y, mask=mask, device="cpu", **args)
        if st == "ok" and not torch.equal(X, Xc):
            return "modified", None
        if st != "ok":
            return "raise", val
        if tuple(val.shape) != (1, A, L):
            return "shape", list(val.shape)
        g, ok = decode(val)
        if not ok:
            return "notonehot", None
        return "ok", tuple(int(c) for c in g[0])

    seen = {}
    frontier = collections.deque()
    start_list = _starts(L) if not sh.get("long") else [tuple((i * k + k // 2 + (i // 3)) % A for i in range(L)) for k in range(1, 7 if L < 1000 else 3)]
    for s0 in start_list:
        if s0 not in seen:
            seen[s0] = None
            frontier.append(s0)
    step_of = {}
    tie_state = set()
    n_last = 0
    while frontier:
        s = frontier.popleft()
        cur = loss_of(s)
        cands = candidates(s)
        losses = _loss(y, f([c[2] for c in cands]), m_, lk).tolist() if cands else []
        best = min(losses) if losses else None
        eps64 = 1e-12 * max(1.0, abs(cur)) if kind == "linear64" else 0.0
        improving = best is not None and best < cur - eps64
        bs = (1, 3, 32)[len(seen) % 3]
        st, nxt = impl_step(s, batch_size=bs)
        rec.count("transitions")
        rec.case(1, int(improving))
        case = dict(fn="greedy_substitution", L=L, model=kind, motifs=motifs, masked=sh["masked"], seq="".join(ALPH[c] for c in s),
                    max_iter=1, tol=0, batch_size=bs, seed=seed, alphabet=ALPH, loss=lk)
        best_cands = [c for c, l in zip(cands, losses) if l == best] if improving else []
        if kind == "linear64" and improving:
            # states in which two DIFFERENT resulting sequences are within 1e-9 of the smallest loss: which of them a call takes is decided
            # by the last bits (and hence by the batch size); multi-step expectations are not formed through such states
            if len({c[2] for c, l in zip(cands, losses) if abs(l - best) <= 1e-9 * max(1.0, abs(best))}) > 1:
                tie_state.add(s)
        is_last = improving and all(p == L - len(motifs[mi]) for (mi, p, _) in best_cands)
        n_last += int(is_last)
        tag = "best_is_last_fitting_position" if is_last else "general"
        if st != "ok":
            if toolong and st == "raise":
                rec.count("motif_longer_than_sequence_rejected")
                step_of[s] = None
                continue
            rec.violation("greedy:step_%s:%s" % (st, tag), case, observed=nxt)
            step_of[s] = None
            continue
        step_of[s] = nxt
        if improving:
            # double-precision model: the candidate losses are sums whose last bit depends on how the batch is evaluated, so a candidate
            # within a few ulp of the smallest loss is as good as "the" smallest (exact-integer models below need no such allowance)
            near_best = kind == "linear64" and abs(loss_of(nxt) - best) <= 1e-12 * max(1.0, abs(best))
            if nxt not in [c[2] for c in best_cands] and not near_best:
                rec.violation("greedy:step_not_best:" + tag, case,
                              expected=dict(best_loss=best, any_of=[(motifs[mi], p) for (mi, p, _) in best_cands][:4]),
                              observed=dict(seq="".join(ALPH[c] for c in nxt), loss=loss_of(nxt), current_loss=cur))
        else:
            if nxt != s and not (kind == "linear64" and abs(loss_of(nxt) - cur) <= eps64):
                rec.violation("greedy:changed_without_improvement", case, expected="unchanged",
                              observed="".join(ALPH[c] for c in nxt))
        if loss_of(nxt) > cur + eps64:
            rec.violation("greedy:loss_increased", case, expected=cur, observed=loss_of(nxt))
        rec.outcome((s, nxt))
        if nxt not in seen:
            seen[nxt] = s
            frontier.append(nxt)
    rec.count("states", len(seen))
    rec.count("best_is_last_fitting_position_transitions", n_last)

    # multi-step calls from every reachable state = composition of validated single steps
    states = sorted(seen)
    if tier == "quick":
        states = states[::3]
    for s in states:
        if step_of.get(s) is None:
            continue
        for max_iter in (0, 1, 2, 3, -1):
            for tol in ((0, 1000.0) if kind == "linear64" else ((0, 0.5, 1, 1000.0) if kind != "profile" else (0, 0.05, 0.125, 0.25, 0.5, 1))):
                exp = s
                it = 0
                while True:
                    if it == max_iter:
                        break
                    nx = step_of.get(exp)
                    if nx is None or exp in tie_state:
                        exp = None
                        break
                    # the losses are float32 tensors in the implementation, and so is their difference: at the boundary
                    # improvement == tol the comparison must be made on the float32 difference
                    improvement = float(numpy.float32(loss_of(exp)) - numpy.float32(loss_of(nx))) if kind != "linear64" else loss_of(exp) - loss_of(nx)
                    exp = nx
                    if kind == "linear64" and abs(improvement - tol) < 1e-9:
                        exp = None          # the stopping comparison is decided by the last bits of a double-precision sum: not decided here
                        break
                    if improvement <= tol:
                        break
                    it += 1
                if exp is None:
                    continue
                st, got = impl_step(s, max_iter=max_iter, tol=tol)
                rec.count("traces_validated_against_impl")
                if st != "ok" or got != exp:
                    rec.violation("greedy:multistep_differs", dict(fn="greedy_substitution", L=L, model=kind, motifs=motifs,
                                  masked=sh["masked"], seq="".join(ALPH[c] for c in s), max_iter=max_iter, tol=tol, seed=seed, alphabet=ALPH, loss=lk),
                                  expected="".join(ALPH[c] for c in exp), observed="".join(ALPH[c] for c in got) if st == "ok" else got)
                elif loss_of(got) > loss_of(s):
                    rec.violation("greedy:final_loss_higher", dict(seq=s, max_iter=max_iter, tol=tol))
    rec.observe(sorted(seen)[:50], len(seen))
    rec.sample(dict(L=L, model=kind, motifs=motifs, masked=sh["masked"], start_sequences=len(start_list), states=len(seen),
                    example_transition=["".join(ALPH[c] for c in states[0]), "".join(ALPH[c] for c in (step_of.get(states[0]) or states[0]))]))
    return rec.result()


def replay(v):
    from tangermeme.design import greedy_substitution
    c = v["case"]
    L = c["L"]
    model = WModel(L, c["model"], c.get("seed", 0))
    mask = torch.tensor([True, False, True]) if c["masked"] else None
    y = torch.tensor([[3.0, 1.0, 2.0]])
    ALPH = c.get("alphabet", "ACGT")
    if c["model"] == "profile":
        y = (torch.arange(3 * (L - 1)).reshape(1, 3, L - 1) % 3).float()
    X = ohe(numpy.array([[ALPH.index(ch) for ch in c["seq"]]]), A)
    st, val = call(greedy_substitution, model, X, c["motifs"], y, mask=mask, device="cpu", max_iter=c["max_iter"], tol=c["tol"],
                   batch_size=c.get("batch_size", 32), **({} if ALPH == "ACGT" else dict(alphabet=list(ALPH))),
                   **({} if c.get("loss", "mse") == "mse" else dict(loss=LOSSES[c["loss"]])))
    if st != "ok":
        return False, "greedy_substitution raised: %s" % val
    got = "".join(ALPH[k] for k in decode(val)[0][0])
    exp = v.get("expected")
    ok = (isinstance(exp, str) and got == exp)
    return ok, "greedy_substitution(%s, motifs=%s, max_iter=%s, tol=%s) -> %s ; expected %s" % (c["seq"], c["motifs"], c["max_iter"], c["tol"], got, exp)
