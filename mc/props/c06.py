"""C06 - attributions do not depend on batch size, co-batched examples or call order.

Exhaustive over: every ordered subset of a 3-example pool (two of the examples are the SAME sequence, to force identity / seed
collisions), n_shuffles 1..4, EVERY batch_size in 1..N*S+1, reference source (explicit tensor / dinucleotide_shuffle + integer seed /
ersatz.shuffle + integer seed), output mode (processed / raw / hypothetical), return_references, with and without a per-example extra
argument, 3 models.  The pairing bookkeeping is observed as a transition system: a recording model logs, for every forward call, the
decoded (example, reference) pair of every row; states = bookkeeping states (pairs emitted so far, rows in flight), transitions =
forward calls; every call history must emit each pair exactly once, in example-major order, with the example half and the reference
half aligned.  Oracle: the per-example canonical run (that example alone, batch_size = n_shuffles).
"""
import itertools

import numpy
import torch

from mc import dls_common as D
from mc.common import call
from mc.report import Recorder

PID = "C06"
LEVEL = "model_checking"
RULE = ("states = distinct bookkeeping states (configuration, pairs already processed) observed through the recording model; transitions = "
        "forward calls; traces validated = complete deep_lift_shap calls whose per-example outputs and references were compared with the "
        "canonical single-example run; non-trivial = calls with >= 2 examples or a batch size that does not divide n_shuffles")
ASSUMPTIONS = ["integer random_state or explicit reference tensor (random_state=None is non-deterministic by design)", "float64 models; references must be bit-identical, attributions exact for the affine model and within 1e-12 otherwise",
               "CPU only"]
L = 8


class Rec(torch.nn.Module):
    """wraps a Sequential and logs the rows of every forward call."""
    def __init__(self, net, use_arg):
        super().__init__()
        self.net = net
        self.use_arg = use_arg
        self.log = []

    def forward(self, X, *args):
        self.log.append((X.detach().clone(), [a.detach().clone() for a in args]))
        if getattr(self, "fail_at", None) is not None and len(self.log) == self.fail_at:
            raise RuntimeError("injected: forward call %d of an intervening call fails" % self.fail_at)
        y = self.net(X)
        if self.use_arg:
            y = y + args[0].double().reshape(-1, 1) * torch.tensor([[1.0, -0.5]], dtype=torch.float64)
        return y


def bound(tier):
    return ("ordered subsets of size <= 2 of a 3-example pool, n_shuffles 1..3, every batch size 1..N*S+1, 3 reference sources, 3 output modes, 3 models"
            if tier == "quick" else
            "every ordered subset of a 3-example pool, n_shuffles 1..4, every batch size 1..N*S+1, 3 reference sources, 3 output modes, return_references on/off, args on/off, 3 models")


MODELS = [("F", (), ()), ("CAMF", ("ReLU",), ((3, 1, 1, 1),)), ("CAFLA", ("Tanh", "Sigmoid"), ((2, 1, 1, 0),)), ("CBAF", ("ReLU",), ())]


def build_bn(seed):
    """conv - BatchNorm (non-trivial running statistics) - ReLU - flatten - linear: batch-coupled unless in eval mode."""
    g = torch.Generator().manual_seed(77 + seed)
    conv = torch.nn.Conv1d(4, 3, 3, padding=1).double()
    bn = torch.nn.BatchNorm1d(3).double()
    lin = torch.nn.Linear(3 * L, 2).double()
    with torch.no_grad():
        conv.weight.copy_(torch.randint(-3, 4, conv.weight.shape, generator=g).double() / 2)
        conv.bias.copy_(torch.tensor([0.5, -1.0, 0.25]))
        bn.running_mean.copy_(torch.tensor([0.5, -1.0, 0.25]))
        bn.running_var.copy_(torch.tensor([4.0, 0.25, 1.0]))
        bn.weight.copy_(torch.tensor([2.0, 1.0, -1.0]))
        bn.bias.copy_(torch.tensor([0.0, 0.5, 1.0]))
        lin.weight.copy_(torch.randint(-3, 4, lin.weight.shape, generator=g).double() / 2)
        lin.bias.copy_(torch.tensor([0.25, -0.75]))
    return torch.nn.Sequential(conv, bn, torch.nn.ReLU(), torch.nn.Flatten(), lin)


def set_mode(model, k):
    """Mode history of the model before the call; deep_lift_shap evaluates in evaluation mode whatever it is handed."""
    k = k % 4
    if k == 0:
        model.train()
    elif k == 1:
        model.eval()
    elif k == 2:
        model.eval()
        for m in list(model.modules())[1:]:
            m.train()
    else:
        model.eval()
        model.training = True
    return ("all_train", "all_eval", "root_eval_sub_train", "root_train_sub_eval")[k]


SEED_TYPES = (int, numpy.int64, numpy.int32)


def shards(tier, seed):
    out = [dict(name="many_examples", kind="many_examples", weight=400), dict(name="near_kink", kind="near_kink", weight=200)]
    for mi in range(len(MODELS)):
        for src in ("tensor", "dinuc", "shuffle"):
            for use_arg in (False, True):
                out.append(dict(name="m%d/%s/%s" % (mi, src, "arg" if use_arg else "noarg"), mi=mi, src=src, use_arg=use_arg, weight=100))
    return out


def run_many_examples(rec, tier, seed):
    """9..40 examples in one call (a batch completes several examples; example indices cross 8, 16, 32): every example's attributions and
    references equal its single-example run, whatever the batch size."""
    from tangermeme.deep_lift_shap import deep_lift_shap
    from tangermeme.ersatz import dinucleotide_shuffle
    rs = numpy.random.RandomState(41 + seed)
    net = D.build("CAMF", ("ReLU",), ((3, 1, 1, 1),), 2, L, 2, seed % 3)
    model = Rec(net, False)
    for N in ((9, 12, 40) if tier == "quick" else (9, 10, 12, 17, 33, 40, 70)):
        codes = rs.randint(0, 4, (N, L))
        X = torch.zeros(N, 4, L, dtype=torch.float64)
        X[torch.arange(N)[:, None], torch.from_numpy(codes), torch.arange(L)[None, :]] = 1
        for S in (1, 2, 3):
            Rr = torch.zeros(N, S, 4, L, dtype=torch.float64)
            rc = rs.randint(0, 4, (N, S, L))
            for i in range(N):
                for j in range(S):
                    Rr[i, j, torch.from_numpy(rc[i, j]), torch.arange(L)] = 1
            def wrapped_refs(X, **kwargs):
                # a caller's own reference function that forwards whatever it is given (restricting the shuffled region)
                return dinucleotide_shuffle(X, start=1, end=L - 1, **kwargs)
            for src in ("tensor", "dinuc", "wrapped"):
                def kw(idx):
                    if src == "tensor":
                        return dict(references=Rr[idx])
                    if src == "wrapped":
                        return dict(references=wrapped_refs, random_state=7 + seed)
                    return dict(references=dinucleotide_shuffle, random_state=7 + seed)
                canon = []
                for i in range(N):
                    st, val = call(deep_lift_shap, model, X[[i]], n_shuffles=S, batch_size=S, device="cpu", return_references=True, **kw([i]))
                    canon.append(val if st == "ok" else None)
                for bs in (1, 2, 3, 5, 7, 8, 9, 16, 24, 32, 33, 1000):
                    case = dict(fn="deep_lift_shap", model="CAMF", n_examples=N, n_shuffles=S, batch_size=bs, source=src, seed=seed, generator="rs(41+seed)")
                    st, val = call(deep_lift_shap, model, X, n_shuffles=S, batch_size=bs, device="cpu", return_references=True, **kw(list(range(N))))
                    rec.case(1, 1)
                    rec.count("traces_validated_against_impl")
                    if st != "ok":
                        if all(c is None for c in canon):
                            continue
                        rec.violation("dls:raises", case, observed=val)
                        continue
                    for i in range(N):
                        if canon[i] is None:
                            continue
                        if not torch.equal(val[1][i], canon[i][1][0]):
                            rec.violation("dls:references_depend_on_batching", dict(case, position=i), msg="many examples: references of an example differ from its single-example run")
                            break
                        d = (val[0][i] - canon[i][0][0]).abs().max().item()
                        if d > 1e-12 * max(1.0, canon[i][0][0].abs().max().item()):
                            rec.violation("dls:attributions_depend_on_batching", dict(case, position=i, max_abs_diff=d),
                                          msg="many examples: attribution of an example differs from its single-example run")
                            break
                rec.observe(N, S, src)
    rec.sample(dict(kind="many_examples", n_examples=[9, 12, 40], n_shuffles=[1, 2, 3], batch_sizes=[1, 2, 3, 5, 7, 8, 9, 16, 24, 32, 33, 1000]))


def run_near_kink(rec, tier, seed):
    """An example whose pre-activation differs from its reference by a few 1e-6 across a ReLU kink, co-batched with an example whose
    difference is large: which rule applies to a unit of one pair must not depend on the other pairs of the batch."""
    from tangermeme.deep_lift_shap import deep_lift_shap
    Lk = 4
    x0 = torch.zeros(1, 4, Lk, dtype=torch.float64)
    x0[0, [0, 1, 2, 3], torch.arange(Lk)] = 1
    r0 = x0.clone()
    r0[0, :, 0] = 0
    r0[0, 2, 0] = 1                                     # reference differs from example 0 only at position 0 (A -> G)
    x1 = torch.zeros(1, 4, Lk, dtype=torch.float64)
    x1[0, [3, 3, 0, 1], torch.arange(Lk)] = 1
    r1 = torch.zeros(1, 4, Lk, dtype=torch.float64)
    r1[0, [1, 0, 2, 2], torch.arange(Lk)] = 1
    X = torch.cat([x0, x1])
    R = torch.stack([r0, r1])                            # (2, 1, 4, L)
    for act in ("ReLU", "ELU", "Tanh", "Softplus"):
        for d in (1.5e-6, 2e-6, 3e-6, 5e-6, 8e-6, 5e-5, 1e-3):
            for base in (-1e-6, -0.4 * d, 0.3):
                for big in (0.5, 2.0, 50.0, 1000.0):
                    lin1 = torch.nn.Linear(4 * Lk, 3).double()
                    lin2 = torch.nn.Linear(3, 2).double()
                    with torch.no_grad():
                        lin1.weight.zero_()
                        lin1.bias.copy_(torch.tensor([base, 0.25, -0.5]))
                        W = lin1.weight.view(3, 4, Lk)
                        W[0, 0, 0] = d                  # example 0, unit 0: delta_in = d
                        W[1, 3, 0] = big                # example 1 (T at position 0 vs C): delta_in = big
                        W[2, 1, 1] = 0.5
                        lin2.weight.copy_(torch.tensor([[1.0, -2.0, 0.5], [0.25, 1.0, -1.0]]))
                        lin2.bias.zero_()
                    model = torch.nn.Sequential(torch.nn.Flatten(), lin1, D.make_act(act), lin2)
                    case = dict(fn="deep_lift_shap", arch="Flatten-Linear-%s-Linear" % act, delta_in=d, base=base, co_batched_delta=big)
                    import warnings
                    with warnings.catch_warnings():
                        warnings.simplefilter("ignore")
                        st0, a0 = call(deep_lift_shap, model, X[[0]], references=R[[0]], device="cpu", hypothetical=True, warning_threshold=1e9)
                        outs = []
                        for (idx, bs) in (([0, 1], 2), ([1, 0], 2), ([0, 1], 1)):
                            st, a = call(deep_lift_shap, model, X[idx], references=R[idx], batch_size=bs, device="cpu", hypothetical=True, warning_threshold=1e9)
                            outs.append((idx, bs, st, a))
                    rec.case(1, 1)
                    rec.count("traces_validated_against_impl", 3)
                    if st0 != "ok":
                        rec.violation("dls:raises", case, observed=a0)
                        continue
                    for (idx, bs, st, a) in outs:
                        if st != "ok":
                            rec.violation("dls:raises", dict(case, examples=idx, batch_size=bs), observed=a)
                            continue
                        got = a[idx.index(0)]
                        dd = (got - a0[0]).abs().max().item()
                        if dd > 1e-9 * max(1.0, a0[0].abs().max().item()):
                            rec.violation("dls:attributions_depend_on_batching", dict(case, examples=idx, batch_size=bs, max_abs_diff=dd),
                                          msg="near-kink pair: attribution changes with the co-batched example")
                            break
    rec.sample(dict(kind="near_kink", activations=["ReLU", "ELU", "Tanh", "Softplus"], delta_in=[1.5e-6, 2e-6, 3e-6, 5e-6, 8e-6, 5e-5, 1e-3],
                    co_batched_delta=[0.5, 2, 50, 1000]))


def pool(seed):
    X, R = D.inputs(L, seed)
    X = X[:3].clone()
    X[1] = X[0]                    # two identical sequences
    R = R[:3, :4].clone()          # 4 one-hot references each (explicit-tensor source); identical examples get DIFFERENT reference sets
    return X, R


def run_shard(sh, tier, seed):
    from tangermeme.deep_lift_shap import deep_lift_shap
    from tangermeme.ersatz import dinucleotide_shuffle, shuffle
    rec = Recorder(PID, sh["name"])
    if sh.get("kind") == "many_examples":
        run_many_examples(rec, tier, seed)
        return rec.result()
    if sh.get("kind") == "near_kink":
        run_near_kink(rec, tier, seed)
        return rec.result()
    sk, acts, convs = MODELS[sh["mi"]]
    net = build_bn(seed) if sk == "CBAF" else D.build(sk, acts, convs, 2, L, 2, seed % 3)
    model = Rec(net, sh["use_arg"])
    sd0 = {k: v.clone() for k, v in model.state_dict().items()}
    X, R = pool(seed)
    A = torch.tensor([[3.0], [5.0], [7.0]], dtype=torch.float64)
    exact = sh["mi"] == 0
    tol = 0.0 if exact else 1e-12
    states = set()
    subsets = [s for k in ((1, 2) if tier == "quick" else (1, 2, 3)) for s in itertools.permutations(range(3), k)]
    Ss = (1, 2, 3) if tier == "quick" else (1, 2, 3, 4)
    modes = ("processed", "raw", "hypothetical")
    for S in Ss:
        def kwargs(idx, seed_type=int):
            kw = dict(n_shuffles=S, device="cpu")
            if sh["src"] == "tensor":
                kw["references"] = R[list(idx), :S]
            else:
                kw["references"] = dinucleotide_shuffle if sh["src"] == "dinuc" else shuffle
                kw["random_state"] = seed_type(11 + seed)     # an integer seed is an integer seed whatever its integer type
            if sh["use_arg"]:
                kw["args"] = (A[list(idx)],)
            return kw
        canon = {}
        for mode in modes:
            for e in range(3):
                mk = dict(raw_outputs=(mode == "raw"), hypothetical=(mode == "hypothetical"))
                st, val = call(deep_lift_shap, model, X[[e]], batch_size=S, return_references=True, **mk, **kwargs((e,)))
                if st != "ok":
                    rec.violation("dls:raises", dict(fn="deep_lift_shap", example=e, n_shuffles=S, mode=mode, source=sh["src"]), observed=val)
                    canon[(mode, e)] = None
                else:
                    canon[(mode, e)] = (val[0][0].clone(), val[1][0].clone())
        for sub in subsets:
            N = len(sub)
            for bs in range(1, N * S + 2):
                for mode in modes:
                    for rr in ((True,) if tier == "quick" else (True, False)):
                        mk = dict(raw_outputs=(mode == "raw"), hypothetical=(mode == "hypothetical"))
                        case = dict(fn="deep_lift_shap", model=sk, examples=list(sub), n_shuffles=S, batch_size=bs, mode=mode, source=sh["src"],
                                    args=sh["use_arg"], return_references=rr, seed=seed)
                        model.log = []
                        styp = SEED_TYPES[(bs + len(sub)) % 3]
                        case["mode_before"] = set_mode(model, bs + N + modes.index(mode))
                        case["seed_type"] = styp.__name__
                        st, val = call(deep_lift_shap, model, X[list(sub)], batch_size=bs, return_references=rr, **mk, **kwargs(sub, styp))
                        rec.case(1, int(N >= 2 or S % bs != 0))
                        rec.count("traces_validated_against_impl")
                        if st != "ok":
                            rec.violation("dls:raises", case, observed=val)
                            continue
                        attr, refs = (val if rr else (val, None))
                        bad = False
                        for pos, e in enumerate(sub):
                            c = canon[(mode, e)]
                            if c is None:
                                continue
                            if refs is not None and not torch.equal(refs[pos], c[1]):
                                rec.violation("dls:references_depend_on_batching", dict(case, position=pos),
                                              msg="shuffle j of an example differs from the canonical single-example run")
                                bad = True
                                break
                            d = (attr[pos] - c[0]).abs().max().item()
                            if tuple(attr[pos].shape) != tuple(c[0].shape) or d > tol * max(1.0, c[0].abs().max().item()):
                                rec.violation("dls:attributions_depend_on_batching", dict(case, position=pos, max_abs_diff=d),
                                              msg="attribution of an example differs from the canonical single-example run")
                                bad = True
                                break
                        if bad:
                            continue
                        # bookkeeping observed through the recording model: every pair exactly once, example-major, halves aligned
                        pairs = []
                        done = 0
                        for (Xb, argsb) in model.log:
                            rows = Xb.shape[0] // 2
                            rec.count("transitions")
                            states.add((N, S, bs, done, rows))
                            for r in range(rows):
                                p = done + r
                                pos, j = p // S, p % S
                                if pos >= N or not torch.equal(Xb[r], X[sub[pos]]):
                                    rec.violation("dls:forward_rows_out_of_order", dict(case, forward_call=len(pairs), row=r))
                                    bad = True
                                    break
                                if refs is not None and not torch.equal(Xb[rows + r], refs[pos, j].double()):
                                    rec.violation("dls:reference_half_misaligned", dict(case, row=r))
                                    bad = True
                                    break
                                if sh["use_arg"] and (argsb[0][r] != A[sub[pos]]).any():
                                    rec.violation("dls:args_misaligned", dict(case, row=r))
                                    bad = True
                                    break
                            if bad:
                                break
                            if rows > bs:
                                rec.violation("dls:batch_exceeds_batch_size", dict(case, rows=rows))
                            done += rows
                        if not bad and done != N * S:
                            rec.violation("dls:pairs_not_all_processed", case, expected=N * S, observed=done)
                        # repeated call: identical
                        if bs == 2 and mode == "processed":
                            st2, val2 = call(deep_lift_shap, model, X[list(sub)], batch_size=bs, return_references=rr, **mk, **kwargs(sub))
                            a2 = val2[0] if (st2 == "ok" and rr) else val2
                            if st2 != "ok" or not torch.equal(a2, attr):
                                rec.violation("dls:repeated_call_differs", case)
                rec.observe(sub, S, bs)
    # library defaults: n_shuffles = 20, batch_size = 32, references = dinucleotide_shuffle (the values ordinary callers use)
    if sh["src"] == "dinuc":
        argD = dict(args=(A,)) if sh["use_arg"] else {}
        canon20 = []
        for e in range(3):
            st, val = call(deep_lift_shap, model, X[[e]], batch_size=20, random_state=3, device="cpu", return_references=True,
                           **(dict(args=(A[[e]],)) if sh["use_arg"] else {}))
            canon20.append(val if st == "ok" else None)
        for bs in (None, 7, 20, 33, 64):
            kwb = {} if bs is None else dict(batch_size=bs)
            st, val = call(deep_lift_shap, model, X, random_state=3, device="cpu", return_references=True, **kwb, **argD)
            rec.case(1, 1)
            rec.count("traces_validated_against_impl")
            case = dict(fn="deep_lift_shap", model=sk, n_shuffles="default(20)", batch_size=bs or "default(32)", source="dinuc", args=sh["use_arg"], seed=seed)
            if st != "ok":
                if all(c is None for c in canon20):
                    continue
                rec.violation("dls:raises", case, observed=val)
                continue
            for e in range(3):
                if canon20[e] is None:
                    continue
                if not torch.equal(val[1][e], canon20[e][1][0]) or (val[0][e] - canon20[e][0][0]).abs().max().item() > tol * max(1.0, canon20[e][0][0].abs().max().item()):
                    rec.violation("dls:attributions_depend_on_batching", dict(case, position=e), msg="default n_shuffles: result differs from the single-example run")
                    break
    # call order: A ; B (a differently configured call, incl. a custom rescale rule) ; A again -> identical to the first A
    def scaled_rule(module, grad_input, grad_output):
        from tangermeme.deep_lift_shap import _nonlinear
        return (_nonlinear(module, grad_input, grad_output)[0] * 3.0,)
    S = 2
    kwA = dict(n_shuffles=S, device="cpu", batch_size=3, references=R[:, :S])
    argA = dict(args=(A,)) if sh["use_arg"] else {}
    argB = dict(args=(A[:2],)) if sh["use_arg"] else {}
    stA, a1 = call(deep_lift_shap, model, X, **kwA, **argA)
    others = [dict(n_shuffles=3, device="cpu", references=dinucleotide_shuffle, random_state=5, hypothetical=True),
              dict(device="cpu", references=R[:2, :S], additional_nonlinear_ops={torch.nn.ReLU: scaled_rule, torch.nn.Tanh: scaled_rule}, warning_threshold=1e9),
              dict(device="cpu", references=R[:2, :1], raw_outputs=True, batch_size=1)]
    # ... and intervening calls that ABORT: in their second batch (batch size not a multiple of n_shuffles, so an unfinished example is
    # pending), and through the caller's warnings-as-errors setting while a custom rule is installed
    others += [dict(device="cpu", references=R[:2, :2], n_shuffles=2, batch_size=3, _abort="second_forward"),
               dict(device="cpu", references=dinucleotide_shuffle, n_shuffles=3, batch_size=2, random_state=9, _abort="second_forward"),
               dict(device="cpu", references=R[:2, :S], additional_nonlinear_ops={torch.nn.ReLU: scaled_rule, torch.nn.Tanh: scaled_rule}, _abort="warnings_as_errors")]
    labels = ["generated refs + hypothetical", "additional_nonlinear_ops custom rule", "raw outputs, 1 reference",
              "aborted in its second batch (tensor refs)", "aborted in its second batch (generated refs)", "custom rule aborted by warnings-as-errors"]
    for oi, kwB in enumerate(others):
        kwB = dict(kwB)
        abort = kwB.pop("_abort", None)
        if abort == "second_forward":
            model.fail_at = len(model.log) + 2
        import warnings as _w
        with _w.catch_warnings():
            if abort == "warnings_as_errors":
                _w.simplefilter("error")
            stB, _ = call(deep_lift_shap, model, X[:2], **kwB, **argB)
        model.fail_at = None
        if abort and stB == "ok":
            rec.note("intervening call %d was meant to abort but completed" % oi)
        if stB != "ok" and not abort:
            rec.note("intervening call %d raised: %s" % (oi, _))
        st2, a2 = call(deep_lift_shap, model, X, **kwA, **argA)
        rec.case(1, 1)
        rec.count("traces_validated_against_impl")
        if stA != "ok" or st2 != "ok" or not torch.equal(a1, a2):
            rec.violation("dls:result_depends_on_earlier_call", dict(fn="deep_lift_shap", model=sk, source=sh["src"], args=sh["use_arg"], seed=seed,
                          intervening_call=labels[oi]),
                          msg="the same call returns a different result after a differently configured call in between")
    for k_, v_ in model.state_dict().items():
        if not torch.equal(v_, sd0[k_]):
            rec.violation("dls:model_state_changed", dict(fn="deep_lift_shap", model=sk, source=sh["src"], args=sh["use_arg"], seed=seed, key=k_))
    rec.count("states", len(states))
    rec.sample(dict(model=sk, source=sh["src"], args=sh["use_arg"], ordered_subsets=len(subsets), n_shuffles=list(Ss), batch_sizes="1..N*S+1", modes=list(modes)))
    return rec.result()


def replay(v):
    c = v["case"]
    if "n_examples" in c or "co_batched_delta" in c:
        r = run_shard(dict(name="replay", kind="many_examples" if "n_examples" in c else "near_kink"), "quick", c.get("seed", 0))
        hit = [x for x in r["violations"] if x["sig"] == v["sig"]]
        return (not hit), "re-ran the family: %d violations with signature %s%s" % (len(hit), v["sig"], ("\nfirst: %s" % hit[0]) if hit else "")
    mi = [m[0] for m in MODELS].index(c["model"]) if "model" in c else 0
    r = run_shard(dict(name="replay", mi=mi, src=c.get("source", "tensor"), use_arg=c.get("args", False)), "quick" if len(c.get("examples", [0])) <= 2 and c.get("n_shuffles", 1) <= 3 else "thorough", c.get("seed", 0))
    hit = [x for x in r["violations"] if x["sig"] == v["sig"]]
    return (not hit), "re-ran family model=%s source=%s: %d violations with signature %s%s" % (
        c.get("model"), c.get("source"), r["viol_sigs"].get(v["sig"], 0), v["sig"], ("\nfirst: %s" % hit[0]) if hit else "")
