"""C14 - TOMTOM scores and p-values match an independent complete-score reference.

Exhaustive over all queries x all target sets of bounded length over a palette of PWM columns (coarse grid columns, where
exact ties and integerised scores of 0 are common, and generic columns), all (query length, target length) shapes in
[1..7]^2 (+10, 25) on fixed patterns, n_score_bins, strands, hashing on/off.  The first stage (integerised similarity) is
checked on its own against exact Euclidean distances; the second stage (alignment scan, null distribution, strand merge)
against mc.refs.tomtom_ref fed with the integerised similarity matrix.
"""
import itertools
import math

import numpy
import torch

from mc.common import call
from mc.refs import tomtom_ref as TR
from mc.report import Recorder

PID = "C14"
LEVEL = "exploration"
REDUCED = {'quick': 'every third target set of the 6-column palette, every second small target for triples'}
RULE = ("cases = (query, target set, n_score_bins, reverse_complement) enumerated completely over the palette / shape grid; every "
        "(query, target) pair is compared: score, (offset, overlap) in the attaining set, p-value; non-trivial = pairs whose "
        "reference p-value is < 1; separately counted: pairs with null mass in similarity bin 0 and pairs with best score 0")
ASSUMPTIONS = ["n_cache is raised to 2*n_score_bins when n_score_bins > 50 (the implementation asks for this when the unaligned-column score exceeds n_cache)", "inputs on which a query column is equidistant from every pooled target column are excluded (the kernel's score range is empty there)",
               "the second stage is fed with the kernel's own integerised similarity matrix after that matrix passed the first-stage checks",
               "p-values compared with absolute tolerance 1e-9"]

PALETTE = [[1, 0, 0, 0], [.5, .5, 0, 0], [.25, .25, .25, .25], [0, 0, .5, .5], [.7, .1, .1, .1], [.1, .2, .3, .4]]

DEFAULT_PALETTE = PALETTE


def bound(tier):
    return ("all queries of length <=2 x all ordered target pairs of length <=2 over a 4-column palette (+ 6-column palette for length-1/2 queries vs triples), shapes [1..5]^2, bins {10,100}"
            if tier == "quick" else
            "all queries of length <=3 x all target pairs of length <=3 and triples of length <=2 over a 4-column palette, 6-column palette for length<=2, shapes [1..7]^2 + {10,25}, bins {10,50,100,200}, strands, hashing on/off")


def shards(tier, seed):
    out = []
    qmax = 2 if tier == "quick" else 3
    for ql in range(1, qmax + 1):
        for first in range(4):
            out.append(dict(name="pal4/q%d/c%d" % (ql, first), kind="pal", ncols=4, ql=ql, first=first, weight=4 ** ql * 400))
    for ql in (1, 2):
        out.append(dict(name="pal6/q%d" % ql, kind="pal", ncols=6, ql=ql, first=None, weight=6 ** ql * 300))
    out.append(dict(name="shapes", kind="shapes", weight=5000))
    out.append(dict(name="many_targets", kind="many", weight=6000))
    out.append(dict(name="alphabets", kind="alphabets", weight=4000))
    out.append(dict(name="hash_grid", kind="hash_grid", weight=1500))
    out.append(dict(name="many_queries", kind="many_queries", numba_threads=4, weight=4000))
    return out


def col(c):
    return numpy.array(PALETTE[c], dtype=numpy.float64)


def motif(cols):
    return numpy.stack([col(c) for c in cols], axis=1)


def first_stage(TT, Q, T, counts, n_bins, n_median_bins=1000):
    nq, N = Q.shape[1], T.shape[1]
    gamma = numpy.full((N, nq), 1e300)
    gi = numpy.full((N, nq), 77, dtype='int16')      # wide enough for any n_score_bins: the reference must not inherit a narrow dtype
    f = numpy.full((nq, n_bins + 1), 1e300)
    med = numpy.full(nq, 1e300)
    mb = numpy.full((n_median_bins, 2), 1e300)
    offset = int(TT._integer_distances_and_histogram(numpy.ascontiguousarray(Q), numpy.ascontiguousarray(T), gamma, gi, f, med, mb,
                                                     (Q ** 2).sum(0), (T ** 2).sum(0), counts, 0, nq, n_bins))
    return offset, gamma, gi, f, med


def degenerate(Q, T):
    for i in range(Q.shape[1]):
        d = numpy.sqrt(((T - Q[:, i:i + 1]) ** 2).sum(0))
        if d.max() - d.min() < 1e-9:
            return True
    return False


def check_case(rec, TT, Qc, Tcs, n_bins, rc, stats, hashing=False):
    Q = motif(Qc)
    Ts = [motif(t) for t in Tcs]
    allT = Ts + ([t[::-1, ::-1] for t in Ts] if rc else [])
    T = numpy.concatenate(allT, axis=1)
    case = dict(fn="tomtom", query=list(Qc), targets=[list(t) for t in Tcs], n_score_bins=n_bins, reverse_complement=rc, hashing=hashing)
    if Q.shape[0] != 4:
        case["alphabet_rows"] = int(Q.shape[0])
    if PALETTE is not DEFAULT_PALETTE and len(PALETTE) <= 12 and Q.shape[0] == 4:
        case["palette"] = [[float(x) for x in c] for c in PALETTE]      # the columns the indices refer to (for the replay)
    if degenerate(Q, T):
        stats["degenerate_skipped"] += 1
        return
    inv = numpy.arange(T.shape[1])
    if hashing:
        # pooled columns merged by the column hash (n_target_bins=100); only used when the hash is injective on this input,
        # i.e. it merges exactly the identical columns
        T_min = T.min(axis=-1, keepdims=True)
        T_max = T.max(axis=-1, keepdims=True)
        T_max[T_max == T_min] = T_min[T_max == T_min] + 1
        keys = numpy.around((T - T_min) / (T_max - T_min) * 99).T.dot(100 ** numpy.arange(len(T))[:, None]).flatten()
        _, idx, inv, cnts = numpy.unique(keys, return_index=True, return_inverse=True, return_counts=True)
        if len(idx) != len(numpy.unique(T.T, axis=0)):
            stats["hash_not_injective_skipped"] = stats.get("hash_not_injective_skipped", 0) + 1
            return
        T = T[:, idx]
        counts = cnts.astype('int64')
    else:
        counts = numpy.ones(T.shape[1], dtype='int64')
    N = T.shape[1]
    st, val = call(first_stage, TT, Q, T, counts, n_bins)
    if st != "ok":
        rec.violation("tomtom:first_stage_raises", case, observed=val)
        return
    offset, gamma, gi, f, med = val
    nq = Q.shape[1]
    # ---- first stage on its own
    D = numpy.sqrt(numpy.maximum(((T[:, :, None] - Q[:, None, :]) ** 2).sum(0), 0))     # (N, nq) exact distances
    if not numpy.allclose(gamma, -D, atol=1e-7):
        rec.violation("tomtom:distance_wrong", case, expected=-D[:3], observed=gamma[:3])
        return
    S = gi[:, ::-1].astype(numpy.int64) + offset
    span = float(numpy.max(gamma - med[None, :]))
    fb = int(math.floor(n_bins / span)) if span > 0 else 0
    # the kernel's scale is floor(n_bins / (z_max - i_min)); recomputing the denominator in a different association may
    # differ by an ulp exactly at an integer quotient, so accept the neighbouring integer when it divides `offset`
    bin_scale, S_chk = fb, None
    for cand in (fb, fb + 1, fb - 1):
        if cand > 0 and offset % cand == 0:
            S_c = numpy.floor((gamma - med[None, :]) * cand + 0.5).astype(numpy.int64)
            if S_chk is None or numpy.array_equal(S, S_c):
                bin_scale, S_chk = cand, S_c
            if numpy.array_equal(S, S_c):
                break
    if S_chk is None or not numpy.array_equal(S, S_chk) or S.min() < 0 or S.max() > n_bins:
        rec.violation("tomtom:integerised_similarity_inconsistent:bins%d" % n_bins, case, expected=S_chk[:4], observed=S[:4],
                      msg="stored similarity differs from floor((gamma-median)*scale+0.5)")
        return
    for i in range(nq):
        o = numpy.argsort(D[:, i], kind="stable")
        if (numpy.diff(S[o, i]) > 0).any():
            rec.violation("tomtom:similarity_not_monotone_in_distance", dict(case, column=i))
            return
    f_ref = TR.column_pmfs(S, counts, n_bins)
    if not numpy.allclose(f, f_ref, atol=1e-12):
        rec.violation("tomtom:histogram_wrong", case)
        return
    i_min = -offset // bin_scale if bin_scale else 0
    for i in range(nq):
        g = numpy.sort(numpy.repeat(gamma[:, i], counts))
        width = (g[-1] - g[0]) / 999.0
        lo_med, hi_med = g[(len(g) - 1) // 2], g[len(g) // 2]
        m_impl = med[i] - i_min
        if not (lo_med - width - 1e-9 <= m_impl <= hi_med + width + 1e-9):
            rec.violation("tomtom:median_shift_off", dict(case, column=i), expected=[lo_med, hi_med], observed=m_impl)
            return
    # ---- second stage vs reference
    cols, c0 = [], 0
    for t in allT:
        cols.append([int(inv[j]) for j in range(c0, c0 + t.shape[1])])
        c0 += t.shape[1]
    ref, _ = TR.query_vs_targets(S, offset, counts, cols, n_bins)
    nT = len(Ts)
    # the scratch length is Q_max*(n_score_bins + n_cache): `offset` may reach n_score_bins, so n_cache must be raised with it
    st, res = call(TT.tomtom, [Q], Ts, n_target_bins=(100 if hashing else None), reverse_complement=rc, n_jobs=1, n_score_bins=n_bins,
                   n_cache=max(100, 2 * n_bins))
    if st != "ok":
        rec.violation("tomtom:raises", case, observed=res)
        return
    p, sc, off, ov, strand = [r.numpy()[0] for r in res[:5]]
    zero_mass = bool((f_ref[:, 0] > 0).any())
    for ti in range(nT):
        stats["pairs"] += 1
        if rc:
            m = TR.merge_strands(ref[ti], ref[ti + nT])
            rp, rs = m["p"], m["score"]
            ok_align = int(strand[ti]) in m["strands"] and (int(off[ti]), int(ov[ti])) in m["attain"][int(strand[ti])] \
                if int(strand[ti]) in (0, 1) else False
        else:
            rp, rs = ref[ti]["p"], ref[ti]["score"]
            ok_align = (int(off[ti]), int(ov[ti])) in ref[ti]["attain"] and int(strand[ti]) == 0
        stats["nontrivial"] += int(rp < 1.0)
        tag = ("score0" if rs == 0 else ("bin0_mass" if zero_mass else "general"))
        stats["pairs_" + tag] += 1
        c2 = dict(case, target=ti)
        if int(sc[ti]) != rs or sc[ti] != int(sc[ti]):
            rec.violation("tomtom:wrong_score:" + tag, c2, expected=rs, observed=float(sc[ti]))
            continue
        if not ok_align:
            rec.violation("tomtom:alignment_does_not_attain_best:" + tag, c2,
                          expected=sorted(ref[ti]["attain"]) if not rc else {k: sorted(v) for k, v in m["attain"].items()},
                          observed=[float(off[ti]), float(ov[ti]), float(strand[ti])])
            continue
        if not (abs(float(p[ti]) - rp) <= 1e-9):
            rec.violation("tomtom:wrong_p_value:" + tag, c2, expected=rp, observed=float(p[ti]))
            continue
        # self match: best at offset 0 with full overlap
        if list(Tcs[ti]) == list(Qc):
            fwd = ref[ti]
            if (0, nq) not in fwd["attain"] and not (rc and ref[ti + nT]["score"] > fwd["score"]):
                rec.violation("tomtom:self_match_not_best_at_offset0", c2, observed=sorted(fwd["attain"]))
    rec.observe(Qc, Tcs, n_bins, rc, [round(float(x), 12) for x in p], [float(x) for x in sc])
    return res


def run_pal(rec, sh, tier, seed):
    from tangermeme.tools import tomtom as TT
    stats = dict(pairs=0, nontrivial=0, degenerate_skipped=0, pairs_score0=0, pairs_bin0_mass=0, pairs_general=0)
    nc, ql = sh["ncols"], sh["ql"]
    queries = [q for q in itertools.product(range(nc), repeat=ql) if sh["first"] is None or q[0] == sh["first"]]
    tmax = (2 if tier == "quick" else 3) if nc == 4 else 2
    singles = [t for l in range(1, tmax + 1) for t in itertools.product(range(nc), repeat=l)]
    if nc == 6:
        singles = [t for t in singles if len(t) == 1 or (t[0] + t[1]) % 3 == 0]
    tsets = [list(p) for p in itertools.product(singles, repeat=2)]
    if nc == 4:
        small = [t for t in singles if len(t) <= 2][:: (2 if tier == "quick" else 1)]
        tsets += [list(p) for p in itertools.product(small[:8], repeat=3)]
    else:
        tsets = tsets[:: (3 if tier == "quick" else 1)]
    if nc == 4 and ql == 1:
        # exact ties of the best score at a LATER offset (target = x, q, q) followed by a target long enough to share that alignment
        # index: the tie-break path of the alignment scan is taken and must not leave anything behind for the next target
        for q0 in range(nc):
            for a_ in range(nc):
                for second in itertools.product(range(nc), repeat=3):
                    tsets.append([(a_, q0, q0), tuple(second)])
    bins_list = (100, 10) if tier == "quick" else (100, 10, 50, 200)
    for qi, q in enumerate(queries):
        for ti, ts in enumerate(tsets):
            nb = bins_list[(qi + ti) % len(bins_list)]
            rc = bool((qi + ti // 2) % 2)
            r = check_case(rec, TT, q, ts, nb, rc, stats)
            rec.case(1, 1)
            if (qi + ti) % (5 if tier == "quick" else 3) == 0:
                # column hashing on (identical pooled columns merged with multiplicities), verified injective on the case
                check_case(rec, TT, q, ts, nb, rc, stats, hashing=True)
                rec.case(1, 1)
            # reverse-complementing the targets changes only the strand (decided only when strand scores differ)
            if rc and r is not None and (qi + ti) % 4 == 0:
                Tr = [motif(t)[::-1, ::-1].copy() for t in ts]
                st, rr = call(TT.tomtom, [motif(q)], Tr, n_target_bins=None, reverse_complement=True, n_jobs=1, n_score_bins=nb)
                if st != "ok":
                    rec.violation("tomtom:raises", dict(fn="tomtom", query=list(q), targets="rc of %s" % (ts,)), observed=rr)
                elif not numpy.allclose(rr[0].numpy(), r[0].numpy(), atol=1e-12):
                    rec.violation("tomtom:rc_of_targets_changes_p_value", dict(fn="tomtom", query=list(q), targets=[list(t) for t in ts], n_score_bins=nb),
                                  expected=r[0].numpy(), observed=rr[0].numpy())
                elif not numpy.array_equal(rr[1].numpy(), r[1].numpy()):
                    # same p-values, different integer scores: the integerisation SCALE changed.  Known to happen when a query column's
                    # median distance equals its minimum distance (then floor(z_min) flips between -1 and 0 on a one-ulp difference)
                    Q_, allT_ = motif(q), [motif(t) for t in ts]
                    T_ = numpy.concatenate(allT_ + [t[::-1, ::-1] for t in allT_], axis=1)
                    trig = False
                    for i in range(Q_.shape[1]):
                        d = numpy.sort(-numpy.sqrt(((T_ - Q_[:, i:i + 1]) ** 2).sum(0)))
                        if abs(d[(len(d) - 1) // 2] - d[0]) < 1e-12:
                            trig = True
                    rec.violation("tomtom:rc_of_targets_changes_score_scale:" + ("column_median_equals_minimum" if trig else "general"),
                                  dict(fn="tomtom", query=list(q), targets=[list(t) for t in ts], n_score_bins=nb), expected=r[1].numpy(), observed=rr[1].numpy())
    for k, v in stats.items():
        rec.count(k, v)
    rec.sample(dict(kind="pal", palette=PALETTE[:nc], query_length=ql, queries=len(queries), target_sets=len(tsets), bins=list(bins_list),
                    example=dict(query=list(queries[0]), targets=[list(t) for t in tsets[len(tsets) // 2]])))


def run_shapes(rec, tier, seed):
    from tangermeme.tools import tomtom as TT
    stats = dict(pairs=0, nontrivial=0, degenerate_skipped=0, pairs_score0=0, pairs_bin0_mass=0, pairs_general=0)
    lens = list(range(1, 6)) if tier == "quick" else list(range(1, 8)) + [10, 25]

    def pat(L, k):
        return [((i * (k + 2) + k + (i // 3)) % 6) for i in range(L)]
    for nq in lens:
        for nt in lens:
            for nb in ((100, 10) if tier == "quick" else (10, 50, 100, 200)):
                for rc in (False, True):
                    q = pat(nq, 1 + seed % 3)
                    ts = [pat(nt, 2), pat(max(1, nt - 1), 4), pat(nt, 0), q[:nt] if nt <= nq else q + pat(nt - nq, 3)]
                    check_case(rec, TT, q, ts, nb, rc, stats)
                    rec.case(1, 1)
    for k, v in stats.items():
        rec.count(k, v)
    rec.sample(dict(kind="shapes", lengths=lens, bins="10..200", strands="both"))


def run_many(rec, tier, seed):
    """Hundreds of targets (more than 255 / 32767 pooled columns), long queries, generic (non-grid) columns."""
    from tangermeme.tools import tomtom as TT
    global PALETTE
    stats = dict(pairs=0, nontrivial=0, degenerate_skipped=0, pairs_score0=0, pairs_bin0_mass=0, pairs_general=0)
    rs = numpy.random.RandomState(61 + seed)
    old = PALETTE
    try:
        extra = [list(rs.dirichlet([0.6] * 4)) for _ in range(60)]
        PALETTE = old + extra                      # palette indices 6..65 are generic columns
        for (nT, tmax, qlens) in ((300, 12, (1, 4, 25)), (40, 3, (2, 9)), (1200, 30, (7,))):
            Ts = [[int(rs.randint(0, len(PALETTE))) for _ in range(int(rs.randint(1, tmax + 1)))] for _ in range(nT)]
            for ql in qlens:
                q = [int(rs.randint(0, len(PALETTE))) for _ in range(ql)]
                Ts2 = Ts[:-1] + [q]               # the query itself is among the targets
                for rc in (True, False):
                    check_case(rec, TT, q, Ts2, 100, rc, stats)
                    rec.case(1, 1)
    finally:
        PALETTE = old
    for k, v in stats.items():
        rec.count(k, v)
    rec.sample(dict(kind="many_targets", n_targets=[300, 40, 1200], query_lengths=[1, 4, 25, 2, 9, 7], columns="6 grid + 60 generic (Dirichlet) columns"))


def run_alphabets(rec, tier, seed):
    """Alphabets with 2, 3, 5, 6 and 20 rows (protein motifs, extended nucleotide alphabets): same reference, same checks."""
    from tangermeme.tools import tomtom as TT
    global PALETTE
    stats = dict(pairs=0, nontrivial=0, degenerate_skipped=0, pairs_score0=0, pairs_bin0_mass=0, pairs_general=0)
    old = PALETTE
    try:
        for Arows in (2, 3, 5, 6, 20):
            rs = numpy.random.RandomState(7 + seed + Arows)
            eye = numpy.eye(Arows)
            pal = [list(eye[i]) for i in range(min(Arows, 6))] + [list(numpy.full(Arows, 1.0 / Arows))]
            pal += [list((eye[i] + eye[(i + 1) % Arows]) / 2) for i in range(min(Arows, 3))]
            # columns that agree on the first four rows and differ only beyond them
            if Arows > 4:
                a_ = numpy.zeros(Arows); a_[0] = .5; a_[4] = .5
                b_ = numpy.zeros(Arows); b_[0] = .5; b_[Arows - 1] = .5
                pal += [list(a_), list(b_)]
            pal += [list(rs.dirichlet([0.7] * Arows)) for _ in range(6)]
            PALETTE = pal
            n = len(pal)
            for ql in (1, 2, 4):
                for k in range(6):
                    q = [int(rs.randint(0, n)) for _ in range(ql)]
                    Ts = [[int(rs.randint(0, n)) for _ in range(int(rs.randint(1, 5)))] for _ in range(6)] + [q]
                    for rc in (False, True):
                        check_case(rec, TT, q, Ts, 100, rc, stats)
                        rec.case(1, 1)
    finally:
        PALETTE = old
    for k, v in stats.items():
        rec.count(k, v)
    rec.sample(dict(kind="alphabets", rows=[2, 3, 5, 6, 20], query_lengths=[1, 2, 4], columns="unit, uniform, two-letter, beyond-row-4, Dirichlet"))


def run_hash_grid(rec, tier, seed):
    """Column hashing on (n_target_bins = 100): pooled target columns that differ by ONE bin in one row while another row sits at the two
    ends of its (narrow) pooled range - distinct columns must stay distinct under the hash, identical ones are merged."""
    from tangermeme.tools import tomtom as TT
    global PALETTE
    stats = dict(pairs=0, nontrivial=0, degenerate_skipped=0, pairs_score0=0, pairs_bin0_mass=0, pairs_general=0)
    old = PALETTE
    try:
        for pal in (
            # row A only takes 0.20 / 0.21 over the whole pool (range = one bin of row C after scaling)
            # (row C spans 0..0.80, so .32 / .33 fall into neighbouring bins 40 / 41 while row A jumps from bin 0 to bin 99)
            [[.21, .32, .27, .20], [.20, .33, .27, .20], [.20, .00, .60, .20], [.20, .80, .00, .00], [.21, .00, .59, .20], [.21, .40, .19, .20]],
            [[.21, .32, .27, .20], [.20, .33, .27, .20], [.20, .30, .30, .20], [.21, .29, .25, .25], [.20, .40, .20, .20], [.21, .32, .27, .20]],
            # rows G and T stay within [0, 0.04] over the whole pool while A and C span 0.05..0.9: columns 0 and 1 differ only in the narrow rows
            [[.5, .46, .03, .01], [.5, .46, .025, .015], [.9, .05, .03, .02], [.05, .9, .04, .01], [.3, .66, .0, .04], [.5, .46, .03, .01]],
            # row T constant, rows A / C at their extremes
            [[.10, .60, .05, .25], [.40, .30, .05, .25], [.10, .59, .06, .25], [.40, .31, .04, .25], [.25, .45, .05, .25]],
            # quarter grid whose first row only takes 0 / 0.25
            [[.25, .25, .5, 0], [0, .5, .5, 0], [0, .25, .75, 0], [.25, 0, .5, .25], [0, 0, .5, .5], [.25, .5, 0, .25]],
        ):
            PALETTE = pal
            n = len(pal)
            for q in ([0], [1], [0, 2], [3, 1, 0], [4, 4]):
                q = [c % n for c in q]
                for Ts in ([[0], [1], [2, 3]], [[0, 1], [1, 0], [4]], [[i] for i in range(n)], [[0, 1, 2], [1, 1], [3, 4 % n, 0]]):
                    for rc in (False, True):
                        check_case(rec, TT, q, Ts + [q], 100, rc, stats, hashing=True)
                        check_case(rec, TT, q, Ts + [q], 100, rc, stats, hashing=False)
                        rec.case(2, 2)
    finally:
        PALETTE = old
    for k, v in stats.items():
        rec.count(k, v)
    rec.sample(dict(kind="hash_grid", palettes=3, note="columns one bin apart in one row, another row at the ends of a narrow pooled range"))


def run_many_queries(rec, tier, seed):
    """More than 1024 queries in one call: row i of the result is the result of query i (checked against the reference when run alone)."""
    from tangermeme.tools import tomtom as TT
    global PALETTE
    stats = dict(pairs=0, nontrivial=0, degenerate_skipped=0, pairs_score0=0, pairs_bin0_mass=0, pairs_general=0)
    rs = numpy.random.RandomState(67 + seed)
    old = PALETTE
    try:
        PALETTE = old + [list(rs.dirichlet([0.6] * 4)) for _ in range(30)]
        n = len(PALETTE)
        Ts = [[int(rs.randint(0, n)) for _ in range(int(rs.randint(1, 7)))] for _ in range(9)]
        for nQ in ((1100,) if tier == "quick" else (1100, 2100, 70000)):
            qs = [[int(rs.randint(0, n)) for _ in range(1 + (i * 7) % 5)] for i in range(nQ)]
            for rc in (True, False):
                st, big = call(TT.tomtom, [motif(q) for q in qs], [motif(t) for t in Ts], n_target_bins=None, reverse_complement=rc, n_jobs=4)
                case = dict(fn="tomtom", n_queries=nQ, targets=[list(t) for t in Ts], reverse_complement=rc, generator="rs(67+seed)")
                rec.case(1, 1)
                if st != "ok":
                    rec.violation("tomtom:raises:many_queries", case, observed=big)
                    continue
                big = [b.numpy() for b in big[:5]]
                probe = [0, 1, 255, 256, 1023, 1024, 1025, nQ - 1] + [i for i in (2047, 2048, 65535, 65536, 65537) if i < nQ]
                for i in probe:
                    res = check_case(rec, TT, qs[i], Ts, 100, rc, stats)
                    if res is None:
                        continue
                    one = [r.numpy()[0] for r in res[:5]]
                    if any(not numpy.array_equal(big[k][i], one[k]) for k in range(5)):
                        rec.violation("tomtom:row_of_large_call_differs_from_single_query_call", dict(case, query_index=i, query=qs[i]),
                                      expected=[o.tolist() for o in one[:2]], observed=[big[k][i].tolist() for k in range(2)])
    finally:
        PALETTE = old
    for k, v in stats.items():
        rec.count(k, v)
    rec.sample(dict(kind="many_queries", n_queries=[1100], probes="0,1,255,256,1023,1024,1025,last"))


def run_shard(sh, tier, seed):
    rec = Recorder(PID, sh["name"])
    if sh["kind"] == "alphabets":
        run_alphabets(rec, tier, seed)
        return rec.result()
    if sh["kind"] == "many_queries":
        run_many_queries(rec, tier, seed)
        return rec.result()
    if sh["kind"] == "hash_grid":
        run_hash_grid(rec, tier, seed)
        return rec.result()
    if sh["kind"] == "many":
        run_many(rec, tier, seed)
        return rec.result()
    if sh["kind"] == "pal":
        run_pal(rec, sh, tier, seed)
    else:
        run_shapes(rec, tier, seed)
    return rec.result()


def replay(v):
    from tangermeme.tools import tomtom as TT
    c = v["case"]
    rec = Recorder(PID, "replay")
    stats = dict(pairs=0, nontrivial=0, degenerate_skipped=0, pairs_score0=0, pairs_bin0_mass=0, pairs_general=0)
    if "palette" in c:
        global PALETTE
        old = PALETTE
        PALETTE = c["palette"]
        try:
            check_case(rec, TT, c["query"], c["targets"], c["n_score_bins"], c["reverse_complement"], stats, hashing=c.get("hashing", False))
        finally:
            PALETTE = old
        return (not rec.violations), "tomtom(query=%s, targets=%s over the recorded palette, hashing=%s): %s" % (
            c["query"], c["targets"], c.get("hashing"), rec.violations[:2] or "agrees with the reference")
    if "n_queries" in c:
        run_many_queries(rec, "quick", 0)
        hit = [x for x in rec.violations if x["sig"] == v["sig"]]
        return (not hit), "re-ran the many-queries family: %d violations with signature %s" % (len(hit), v["sig"])
    if c.get("alphabet_rows"):
        run_alphabets(rec, "quick", 0)
        hit = [x for x in rec.violations if x["sig"] == v["sig"]]
        return (not hit), "re-ran the alphabets family: %d violations with signature %s" % (len(hit), v["sig"])
    if any(i >= len(PALETTE) for i in c.get("query", [])) or any(i >= len(PALETTE) for t in c.get("targets", []) if not isinstance(c.get("targets"), str) for i in t):
        run_many(rec, "quick", 0)
        hit = [x for x in rec.violations if x["sig"] == v["sig"]]
        return (not hit), "re-ran the many-targets family: %d violations with signature %s" % (len(hit), v["sig"])
    if isinstance(c.get("targets"), str):
        return True, "not replayable individually (rc-of-targets differential); re-run the shard"
    check_case(rec, TT, c["query"], c["targets"], c["n_score_bins"], c["reverse_complement"], stats)
    return (not rec.violations), "tomtom(query=%s, targets=%s, n_score_bins=%s, rc=%s): %s" % (
        c["query"], c["targets"], c["n_score_bins"], c["reverse_complement"], rec.violations[:2] or "agrees with the reference")
