"""Globals re-binding for numba dispatchers' py_func: run the REAL function body with chosen globals
(never patch module globals in place: lazily compiled kernels would then fail typing on the shim)."""
import math
import types

import numpy


def nth_perm(n, idx):
    items = list(range(n))
    out = []
    for i in range(n, 0, -1):
        f = math.factorial(i - 1)
        q, idx = divmod(idx, f)
        out.append(items.pop(q))
    return numpy.array(out, dtype=numpy.int64)


def rebind(func, globs, defaults=True):
    """func: plain function or numba dispatcher. Returns a new python function with the same code object
    and the given globals dict."""
    py = getattr(func, "py_func", func)
    f = types.FunctionType(py.__code__, globs, py.__name__, py.__defaults__ if defaults else None, py.__closure__)
    f.__kwdefaults__ = py.__kwdefaults__
    return f


class EnumRandom:
    """numpy.random replacement whose permutation() is an explorer choice point."""
    def __init__(self, ch):
        self.ch = ch

    def seed(self, s):
        pass

    def permutation(self, n):
        n = int(n)
        if n <= 1:
            return numpy.arange(max(n, 0))
        return nth_perm(n, self.ch.choose(math.factorial(n), deviation=True, label="permutation(%d)" % n))


class NumpyShim:
    """numpy with .random (and optionally .empty) replaced."""
    def __init__(self, random=None, empty=None):
        if random is not None:
            self.random = random
        if empty is not None:
            self.empty = empty

    def __getattr__(self, k):
        return getattr(numpy, k)
