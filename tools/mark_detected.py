#!/venv/bin/python
import json, sys
k, det = sys.argv[1], sys.argv[2]
p = "/verif/seeded/%s/meta.json" % k
m = json.load(open(p)); m["detected_by"] = det; json.dump(m, open(p, "w"), indent=1)
