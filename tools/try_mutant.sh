#!/bin/bash
# usage: tools/try_mutant.sh <patch.diff> <tier> <Cnn> [<Cnn>...]   -- applies the patch to a scratch worktree of /repo HEAD
# (never to /repo), runs the checks against it with evidence/replays redirected to /tmp/verif_mut, prints a summary.
set -u
PATCH=$1; TIER=$2; shift 2
WT=${WT:-/tmp/wt/me}; OUTD=/tmp/verif_mut_$(basename $WT)
if [ ! -d $WT ]; then git -C /repo worktree add -q --detach $WT HEAD; fi
git -C $WT reset -q --hard; git -C $WT clean -fdq; git -C $WT checkout -q --detach $(git -C /repo rev-parse HEAD)
if ! git -C $WT apply --3way "$PATCH" 2>/tmp/verif_mut_apply.log; then
  if ! (cd $WT && patch -p1 --no-backup-if-mismatch -F3 < "$PATCH" >/tmp/verif_mut_apply.log 2>&1); then echo "PATCH DOES NOT APPLY: $PATCH"; cat /tmp/verif_mut_apply.log | tail -5; git -C $WT reset -q --hard; exit 3; fi
fi
git -C $WT reset -q
mkdir -p $OUTD
for C in "$@"; do
  VERIF_OUT=$OUTD VERIF_REPO=$WT /venv/bin/python /verif/run_check.py $C --tier $TIER > $OUTD/$C.log 2>&1
  rc=$?
  nv=$(grep -c '^VIOLATION' $OUTD/$C.log)
  sigs=$(/venv/bin/python -c "import json;e=json.load(open('$OUTD/evidence/$C.json'));print(e['coverage']['violation_signatures'])" 2>/dev/null | cut -c1-300)
  echo "  $C rc=$rc violations_printed=$nv sigs=$sigs"
done
git -C $WT checkout -q -- . ; git -C $WT clean -fdq
