#!/venv/bin/python
"""Generates hand-made property-breaking diffs under /verif/mutants (from the 'meant to catch' lists in DESIGN.md section 3).
Each entry: (name, property, file, old, new).  Run from anywhere; uses a scratch worktree /tmp/wt/mk."""
import os, subprocess, sys
M = [
 ("C03_no_grad_dropped", "C03", "tangermeme/predict.py", "	with torch.no_grad():\n		batch_size = min", "	with torch.enable_grad():\n		batch_size = min"),
 ("C03_zip_without_star", "C03", "tangermeme/predict.py", "for y_ in list(zip(*y))]", "for y_ in list(zip(*y))[::-1]]"),
 ("C07_final_clear_hooks_removed", "C07", "tangermeme/deep_lift_shap.py", "	model.apply(_clear_hooks)\n	for module in model.modules():\n		del(module._NON_LINEAR_OPS)", "	for module in model.modules():\n		del(module._NON_LINEAR_OPS)"),
 ("C08_repeat_instead_of_repeat_interleave", "C08", "tangermeme/ablate.py", "a.repeat_interleave(n, dim=0)", "a.repeat(n, *(1 for _ in a.shape[1:]))"),
 ("C08_space_missing_transpose", "C08", "tangermeme/space.py", "		y_afters = torch.stack(y_afters).transpose(0, 1)", "		y_afters = torch.stack(y_afters).transpose(0, 1).flip(1)"),
 ("C09_centre_over_positions", "C09", "tangermeme/ism.py", "attr -= torch.mean(attr, dim=1, keepdims=True)", "attr -= torch.mean(attr, dim=2, keepdims=True)"),
 ("C10_cumsum_strict", "C10", "tangermeme/variant_effect.py", "flank = torch.cumsum(1 - m, dim=-1) <= counts[:, None]", "flank = torch.cumsum(1 - m, dim=-1) < counts[:, None]"),
 ("C12_end_off_by_one", "C12", "tangermeme/tools/fimo.py", "hits[k].append((numpy.int64(l), i, i+n, score,", "hits[k].append((numpy.int64(l), i, i+n-1, score,"),
 ("C12_strands_swapped", "C12", "tangermeme/tools/fimo.py", "hits_['strand'] = ['+'] * len(hits[i]) + ['-'] * len(hits[i+n_])", "hits_['strand'] = ['-'] * len(hits[i]) + ['+'] * len(hits[i+n_])"),
 ("C13_num_threads_not_restored", "C13", "tangermeme/tools/tomtom.py", "	if n_jobs != -1:\n		numba.set_num_threads(_n_jobs)\n", "	pass\n"),
 ("C14_merge_max_p", "C14", "tangermeme/tools/tomtom.py", "		p = min(results[i, 0], results[i+n, 0])", "		p = max(results[i, 0], results[i+n, 0])"),
 ("C14_score_not_minus_one", "C14", "tangermeme/tools/tomtom.py", "results[i, 0] = B_cdfs[nt, uint64(score-1)]", "results[i, 0] = B_cdfs[nt, uint64(score)]"),
 ("C16_mid_rounding", "C16", "tangermeme/io.py", "		mid = start + (end - start) // 2", "		mid = (start + end + 1) // 2"),
 ("C16_odd_window_dropped", "C16", "tangermeme/io.py", "		end = mid + in_width + max_jitter + (in_window % 2)\n", "		end = mid + in_width + max_jitter + (in_window % 2) * (1 - max_jitter)\n"),
 ("C17_N_filter_strict", "C17", "tangermeme/match.py", "	idxs = n_perc <= max_n_perc", "	idxs = n_perc < max_n_perc"),
 ("C17_mask_misses_last_tile", "C17", "tangermeme/match.py", "		end = locus.end // in_window + 1\n", "		end = locus.end // in_window\n"),
 ("C18_diagonal_doubled", "C18", "tangermeme/annotate.py", "				if symmetric and idx0 != idx1:\n					y[idx1, idx0] += 1\n\n	return torch.from_numpy(y)", "				if symmetric:\n					y[idx1, idx0] += 1\n\n	return torch.from_numpy(y)"),
 ("C19_suppression_without_flank", "C19", "tangermeme/seqlet.py", "	suppress = int(0.5*window_size) + flank", "	suppress = int(0.5*window_size)"),
 ("C19_end_clipped_short", "C19", "tangermeme/seqlet.py", "end = min(end + min_seqlet_len + additional_flanks - 1, l)", "end = min(end + min_seqlet_len + additional_flanks - 1, l-1)"),
 ("C20_accepts_zero_improvement", "C20", "tangermeme/design.py", "			if improvement > best_improvement:", "			if improvement >= best_improvement:"),
 ("C20_loss_prev_not_updated", "C20", "tangermeme/design.py", "			loss_prev = best_loss\n", "			pass\n"),
 ("C02_same_seed_every_example", "C02", "tangermeme/ersatz.py", "random_state=random_state+i, verbose=verbose)", "random_state=random_state, verbose=verbose)"),
 ("C01_substitute_no_clone", "C01", "tangermeme/ersatz.py", "	X = torch.clone(X)\n	X[:, :, start:start+n] = motif", "	X[:, :, start:start+n] = motif"),
 ("C06_flush_off_by_one", "C06", "tangermeme/deep_lift_shap.py", "				if raw_outputs == False:\n					attr_chunk = attr_chunk.mean(dim=0)\n					if not hypothetical:\n						attr_chunk *= X[z].cpu()", "				if raw_outputs == False:\n					attr_chunk = attr_chunk.mean(dim=0)\n					if not hypothetical:\n						attr_chunk *= X[Xi[0]].cpu()"),
 ("C05_reference_slope", "C05", "tangermeme/deep_lift_shap.py", "	return (torch.where(idxs, grad_input[0], grad_output[0] * delta),)\n\n\ndef _softmax", "	return (torch.where(idxs, grad_input[0].flip(0), grad_output[0] * delta),)\n\n\ndef _softmax"),
 ("C11_forward_cumsum", "C11", "tangermeme/tools/fimo.py", "	for i in range(len(logpdf) - 2, -1, -1):\n		logpdf[i] = logaddexp2(logpdf[i], logpdf[i + 1])", "	for i in range(1, len(logpdf)):\n		logpdf[i] = logaddexp2(logpdf[i], logpdf[i - 1])"),
]
wt = "/tmp/wt/mk"
subprocess.run("git -C /repo worktree add -q --detach %s HEAD 2>/dev/null; git -C %s reset -q --hard; git -C %s checkout -q --detach $(git -C /repo rev-parse HEAD)" % (wt, wt, wt), shell=True)
os.makedirs("/verif/mutants", exist_ok=True)
for name, pid, f, old, new in M:
    p = os.path.join(wt, f)
    s = open(p).read()
    if s.count(old) != 1:
        print("SKIP %s: pattern occurs %d times" % (name, s.count(old)))
        continue
    open(p, "w").write(s.replace(old, new))
    d = subprocess.run("git -C %s diff" % wt, shell=True, capture_output=True, text=True).stdout
    open("/verif/mutants/%s.diff" % name, "w").write(d)
    subprocess.run("git -C %s checkout -q -- ." % wt, shell=True)
    print("ok", name)
subprocess.run("git -C /repo worktree remove --force %s" % wt, shell=True)
