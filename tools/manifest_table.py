NOTES = ("All checks: bounded-exhaustive exploration of the real code (no sampling); see DESIGN.md. "
         "Known findings: /verif/known_findings.json. Violations are written to /verif/replays/<id>/.")
NOT_APPLICABLE = {}
CHECKS = {
 "C01": dict(level="exploration", design_ref="3/C01",
   technique="bounded-exhaustive input enumeration (all sequences/motifs/starts in the small scope) against a string-level reference model",
   text="Every (alphabet 2..6, sequence L<=5, motif w<=3 in string/shared/per-example form, start in [-3,L+3] and None; every (start,end); every 1-3 motif list x spacing) is executed on the real ersatz functions and compared with a string-level reference; out-of-range spans must raise; caller tensors compared before/after.",
   note="Small-scope hypothesis: the code never branches on sequence length/alphabet beyond the enumerated bounds. Exceptions of any type count as rejection."),
 "C15": dict(level="exploration", design_ref="3/C15",
   technique="bounded-exhaustive input enumeration (all strings / all chunk configurations in the bound) against direct string indexing",
   text="All strings up to length 6 over 11 alphabets x 3 ignore sets, all DNA+N strings up to length 7 for reverse_complement, and every (size, overlap, lengths) chunk configuration in the bound (1, 2, 3 and many chunks, 1-3 sequences) are round-tripped through the real functions and compared exactly with slicing.",
   note="ASCII alphabets; unchunk exercised with explicit lengths."),
 "C18": dict(level="exploration", design_ref="3/C18",
   technique="bounded-exhaustive input enumeration (all ordered annotation tables / all sequences in the small scope) against brute-force counting",
   text="All ordered annotation tables with <=4 rows (count/pairwise) and <=3 rows over (2 examples, 3 annotations, start 0..4, length 1..3) for spacing (gaps exactly max_distance, abutting, overlapping, nested, coincident all occur), max_distance 1..3, symmetric on/off, explicit shapes (too-small must raise), tensor/tuple/DataFrame forms; kmers on all sequences L<=6, A 2..4, k<=4 with and without scores; compared exactly with brute-force counting.",
   note="The k-mer index map is recovered from the single-occurrence calls (bijection required) because it is undocumented; spans have length >= 1."),
 "C03": dict(level="exploration", design_ref="3/C03",
   technique="bounded-exhaustive enumeration of (n, batch_size, n_args, output kind, model kind) with an exact-integer recording probe model",
   text="Every n in 1..40, every batch_size in 1..n+3 (and a huge one), 0-3 extra args of different shapes, tensor/tuple/list outputs, models with BatchNorm+Dropout (training mode observable) and parameter-free models: predict's output is compared exactly with per-example eval-mode forwards; the probe records training flag, grad mode and the row ids of X and every arg in each forward call (aligned consecutive windows covering 0..n-1 in order); mismatching args must raise; inputs and model state compared before/after.",
   note="CPU only; integer-valued weights make equality exact."),
 "C10": dict(level="exploration", design_ref="3/C10",
   technique="bounded-exhaustive enumeration of variant lists per example (all position subsets / coordinates / rows) against Python string edits, tensors captured with an identity model",
   text="Batches of 1-3 sequences; deletions: every subset of <=3 positions per example independently (incl. positions inside the trimmed flank), both trim sides; insertions: every set of <=2 distinct coordinates x characters, both sides, both row orders; substitutions: every <=2 rows per example incl. duplicates, conflicts (must raise) and out-of-range rows (must raise); X and X_var reaching func are captured through predict() with an identity model and compared with string-level edits; extra args alignment and input immutability are checked.",
   note="Non-negative indices only; insertion at coordinate len(X) may be accepted (append) or rejected."),
 "C09": dict(level="exploration", design_ref="3/C09",
   technique="bounded-exhaustive enumeration of (alphabet, length, window, batch size, output kind, target, args) against one-mutant-at-a-time forward passes of an exact-integer model",
   text="A in 2..5, L in 1..8 (+12,17,30), every window 0<=start<end<=L plus the default end=-1 for every start, N in {1,2}, every batch size 1..A*W+1 (L<=5) or boundary sizes, tensor / trailing-dimension / tuple outputs, per-example args, targets None/int/slice, hypothetical on/off: y0 and every y_hat[n,c,p-start] compared exactly with a forward pass on the single mutant; the attribution compared with the documented formula recomputed by plain loops.",
   note="CPU only; negative end other than -1 not exercised; tuple outputs only with raw_outputs=True."),
}
