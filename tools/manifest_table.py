NOTES = ("All checks: bounded-exhaustive exploration of the real code (no sampling); see DESIGN.md. "
         "Known findings: /verif/known_findings.json. Violations are written to /verif/replays/<id>/.")
NOT_APPLICABLE = {}
CHECKS = {
 "C01": dict(level="exploration", design_ref="3/C01",
   technique="bounded-exhaustive input enumeration (all sequences/motifs/starts in the small scope) against a string-level reference model",
   text="Every (alphabet 2..6, sequence L<=5, motif w<=3 in string/shared/per-example form, start in [-3,L+3] and None; every (start,end); every 1-3 motif list x spacing) is executed on the real ersatz functions and compared with a string-level reference; out-of-range spans must raise; caller tensors compared before/after.",
   note="Small-scope hypothesis: the code never branches on sequence length/alphabet beyond the enumerated bounds. Exceptions of any type count as rejection."),
 "C15": dict(level="exploration", design_ref="3/C15",
   technique="bounded-exhaustive input enumeration (all strings / all chunk configurations in the bound) against direct string indexing",
   text="All strings up to length 6 over 11 alphabets x 3 ignore sets, all DNA+N strings up to length 7 for reverse_complement, and every (size, overlap, lengths) chunk configuration in the bound (1, 2, 3 and many chunks, 1-3 sequences) are round-tripped through the real functions and compared exactly with slicing.",
   note="ASCII alphabets; unchunk exercised with explicit lengths."),
}
