#!/venv/bin/python
"""MANIFEST.setup_cmd: offline, from files on disk only.  Warms the numba on-disk cache for the
current /repo tree (cache=True kernels) so that quick checks do not pay compilation repeatedly."""
import os, sys
sys.path.insert(0, os.path.dirname(os.path.dirname(os.path.abspath(__file__))))
from mc import env
info = env.setup()
env.worker_init()
import tangermeme.ersatz, tangermeme.utils  # noqa
from tangermeme.utils import one_hot_encode
one_hot_encode("ACGT")
print("setup ok", info)
