#!/venv/bin/python
"""Maintenance helper (never run by checks): append an entry to known_findings.json."""
import json, sys
p = "/verif/known_findings.json"
d = json.load(open(p))
status, prop, sig, commit, text = sys.argv[1:6]
e = dict(status=status, property=prop, sig=sig)
if status == "fixed":
    e["commit"] = commit
    e["line"] = "fixed: property=%s %s %s" % (prop, commit, text)
else:
    e["what"] = text
d["findings"].append(e)
json.dump(d, open(p, "w"), indent=1)
