#!/bin/bash
# usage: tools/regress_seeded.sh [pattern]  -- re-runs the quick tier of the property's check against every kept seeded change and own
# mutant (scratch worktree, never /repo) and writes /verif/seeded/REGRESSION.json: {name: {check, rc, signatures}}.
# Run with nothing else heavy on the machine (each run uses all cores); ~1 min per change.
set -u
PAT=${1:-}
OUT=/verif/seeded/REGRESSION.json
TMP=$(mktemp)
echo "{" > $TMP
first=1
for P in /verif/seeded/*/patch.diff /verif/mutants/*.diff; do
  case "$P" in *rejected*|*neutralised*) continue;; esac
  if [[ "$P" == */patch.diff ]]; then name=$(basename $(dirname $P)); else name=own/$(basename $P .diff); fi
  [[ -n "$PAT" && "$name" != *$PAT* ]] && continue
  C=$(echo "$name" | grep -oE 'C[0-9]{2}' | head -1)
  res=$(WT=${WT:-/tmp/wt/regress} /verif/tools/try_mutant.sh $P quick $C 2>&1 | tail -1)
  rc=$(echo "$res" | grep -oE 'rc=[0-9]+' | cut -d= -f2)
  sig=$(echo "$res" | sed 's/.*sigs=//' | tr '"' "'" | cut -c1-240)
  [ $first -eq 0 ] && echo "," >> $TMP; first=0
  printf ' "%s": {"check": "%s", "tier": "quick", "rc": %s, "signatures": "%s"}' "$name" "$C" "${rc:-null}" "$sig" >> $TMP
  echo "$name $C rc=${rc:-?} $sig" | cut -c1-200
done
echo "" >> $TMP; echo "}" >> $TMP
if [ -z "$PAT" ]; then mv $TMP $OUT; else cat $TMP; rm $TMP; fi
git -C /repo worktree remove --force ${WT:-/tmp/wt/regress} 2>/dev/null
rm -rf /tmp/verif_mut_regress
