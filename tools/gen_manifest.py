#!/venv/bin/python
"""Regenerates /verif/MANIFEST.json from the table below and validates it against the schema."""
import json, os, subprocess, sys
HERE = os.path.dirname(os.path.dirname(os.path.abspath(__file__)))
sys.path.insert(0, HERE)
from tools.manifest_table import CHECKS, NOT_APPLICABLE, NOTES  # noqa

props = [json.loads(l)["id"] for l in open(os.path.join(HERE, "properties.jsonl"))]
checks = []
for pid in props:
    if pid not in CHECKS:
        continue
    c = CHECKS[pid]
    checks.append(dict(
        property_id=pid,
        quick_cmd="/venv/bin/python run_check.py %s --tier quick" % pid,
        thorough_cmd="/venv/bin/python run_check.py %s --tier thorough" % pid,
        evidence_file="/verif/evidence/%s.json" % pid,
        replay_cmd_template="/venv/bin/python run_check.py %s --replay {path}" % pid,
        engine="mc-explorer",
        level_claimed=dict(category=c["level"], text=c["text"], design_ref=c["design_ref"]),
        level_note=c["note"], technique=c["technique"]))
na = [dict(property_id=p, reason=r) for p, r in NOT_APPLICABLE.items()]
for pid in props:
    if pid not in CHECKS and pid not in NOT_APPLICABLE:
        na.append(dict(property_id=pid, reason="check not built yet in this round (planned in DESIGN.md section 3); no claim is made"))
m = dict(version=1,
         setup_cmd="/venv/bin/python tools/setup.py",
         hooks=dict(guard="TANGERMEME_VERIF",
                    enable="no source hooks: checks import /repo's working tree directly and re-bind function globals from the harness; TANGERMEME_VERIF=1 is exported by the runner but read by nothing in /repo",
                    baseline_off_cmd="cd /repo && /venv/bin/python -m pytest -ra -q -p no:cacheprovider --timeout=900 --continue-on-collection-errors",
                    source_commits=[], add_only=True),
         engines=[dict(name="mc-explorer", path="/verif/mc", serves_properties=[c["property_id"] for c in checks],
                       kind_free_text="hand-written bounded-exhaustive explorer (choice-point DFS, explicit-state BFS, fault enumeration) driving the real tangermeme functions; reference models in plain Python/numpy")],
         checks=checks, notes=NOTES, not_applicable=na)
json.dump(m, open(os.path.join(HERE, "MANIFEST.json"), "w"), indent=1)
import jsonschema
jsonschema.validate(m, json.load(open("/root/.vp/MANIFEST.schema.json")))
print("MANIFEST.json written:", len(checks), "checks,", len(na), "not_applicable")
