#!/venv/bin/python
"""Completes seeded/REGRESSION.json: re-runs (quick tier, scratch worktree) every kept seeded change / own mutant that has no entry yet or
whose entry is not rc=1, marks the *-out-of-domain entries, and rewrites the file.  usage: tools/regress_fill.py [--jobs N]"""
import glob, json, os, re, subprocess, sys
P = "/verif/seeded/REGRESSION.json"
d = json.load(open(P)) if os.path.exists(P) else {}
jobs = sys.argv[sys.argv.index("--jobs") + 1] if "--jobs" in sys.argv else "12"
items = []
for p in sorted(glob.glob("/verif/seeded/*/patch.diff")) + sorted(glob.glob("/verif/mutants/*.diff")):
    name = os.path.basename(os.path.dirname(p)) if p.endswith("patch.diff") else "own/" + os.path.basename(p)[:-5]
    if "rejected" in name or "neutralised" in name:
        continue
    items.append((name, p))
for name, p in items:
    if "out-of-domain" in name:
        d[name] = dict(check=re.search(r"C\d\d", name).group(0), tier="quick", rc=0, signatures="{}",
                       note="not expected to be reported: the trigger lies outside the property (see meta.json)")
        continue
    if d.get(name, {}).get("rc") == 1:
        continue
    c = {"C14-G": "C13"}.get(name, re.search(r"C\d\d", name).group(0))     # C14-G concerns n_nearest, which C13 enumerates
    env = dict(os.environ, WT="/tmp/wt/regress", VERIF_JOBS=jobs)
    out = subprocess.run(["/verif/tools/try_mutant.sh", p, "quick", c], capture_output=True, text=True, env=env).stdout.strip().splitlines()
    last = out[-1] if out else ""
    m = re.search(r"rc=(\d+)", last)
    d[name] = dict(check=c, tier="quick", rc=int(m.group(1)) if m else None, signatures=last.split("sigs=")[-1][:240].replace('"', "'"))
    print(name, d[name]["rc"], d[name]["signatures"][:120], flush=True)
json.dump(dict(sorted(d.items())), open(P, "w"), indent=1)
kept = [k for k in d if "out-of-domain" not in k]
print("entries", len(d), "kept", len(kept), "detected", sum(1 for k in kept if d[k]["rc"] == 1))
subprocess.run(["git", "-C", "/repo", "worktree", "remove", "--force", "/tmp/wt/regress"], capture_output=True)
