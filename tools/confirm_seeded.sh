#!/bin/bash
# usage: tools/confirm_seeded.sh <Cnn> <letter> "<pytest targets>"  -- confirm an agent-made seeded change in a scratch worktree:
# demo fails with the patch, the named existing tests pass with it, demo passes without it.  Then store it under /verif/seeded/.
set -u
ID=$1; LET=$2; TESTS=$3
SRC=/tmp/mut/$ID/$LET
WT=/tmp/wt/confirm_$ID$LET
git -C /repo worktree add -q --detach $WT HEAD || exit 2
cd $WT
export OMP_NUM_THREADS=2 NUMBA_CACHE_DIR=/tmp/nbc_confirm_$ID$LET
cp $SRC/demo.py $WT/_demo.py
/venv/bin/python _demo.py > /tmp/confirm_$ID$LET.clean.log 2>&1; rc_clean=$?
if ! git apply --3way $SRC/patch.diff 2>/dev/null; then patch -p1 -F3 --no-backup-if-mismatch < $SRC/patch.diff >/dev/null 2>&1 || { echo "$ID-$LET: PATCH DOES NOT APPLY to current HEAD"; cd /; git -C /repo worktree remove --force $WT; exit 3; }; fi
git reset -q
/venv/bin/python _demo.py > /tmp/confirm_$ID$LET.mut.log 2>&1; rc_mut=$?
/venv/bin/python -m pytest -q -p no:cacheprovider --timeout=1800 -n 4 ${K:+-k "$K"} $TESTS > /tmp/confirm_$ID$LET.tests.log 2>&1; rc_tests=$?
tsum=$(tail -1 /tmp/confirm_$ID$LET.tests.log)
git diff -- tangermeme > /tmp/confirm_$ID$LET.rebased.diff
echo "$ID-$LET: demo clean rc=$rc_clean, demo mutated rc=$rc_mut, tests rc=$rc_tests ($tsum)"
if [ $rc_clean -eq 0 ] && [ $rc_mut -ne 0 ]; then
  D=/verif/seeded/$ID-$LET; mkdir -p $D
  cp /tmp/confirm_$ID$LET.rebased.diff $D/patch.diff; cp $SRC/demo.py $D/demo.py
  /venv/bin/python - "$ID" "$LET" "$TESTS" "$rc_clean" "$rc_mut" "$rc_tests" "$tsum" <<'PY'
import json, sys
ID, LET, TESTS, rc_clean, rc_mut, rc_tests, tsum = sys.argv[1:8]
m = json.load(open("/tmp/mut/%s/%s/meta.json" % (ID, LET)))
out = dict(property=ID, summary=m.get("summary"), needs_to_manifest=m.get("needs_to_manifest"), files=m.get("files"),
           agent_tests_run=m.get("tests_run"),
           confirmed=dict(base="current /repo HEAD (patch rebased if needed)", demo_on_clean_rc=int(rc_clean), demo_on_patched_rc=int(rc_mut),
                          existing_tests_cmd="pytest -q -n 4 " + TESTS, existing_tests_rc=int(rc_tests), existing_tests_summary=tsum),
           detected_by=None)
json.dump(out, open("/verif/seeded/%s-%s/meta.json" % (ID, LET), "w"), indent=1)
PY
fi
cd /; git -C /repo worktree remove --force $WT; rm -rf /tmp/nbc_confirm_$ID$LET
